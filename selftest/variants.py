"""Source variants for the self-test.  expect=1 (default): the check must report a
VIOLATION naming `rule`; expect=0: benign refactor, must stay silent."""

def V(name, props, file, old, new, rule=None, expect=1, count=1):
    return {"name": name, "props": props if isinstance(props, list) else [props], "edits": [{"file": file, "old": old, "new": new, "count": count}], "rule": rule, "expect": expect}

VARIANTS = []
A = VARIANTS.append
PS = "misc/psCharStrings.py"
TV = "ttLib/tables/TupleVariation.py"
W2 = "ttLib/woff2.py"
OT = "ttLib/tables/otTables.py"

# ---- C15 -------------------------------------------------------------------
A(V("c15-int-upper-1131", "C15", PS, "elif 108 <= value <= 1131:", "elif 108 <= value <= 1132:", "F5-int"))
A(V("c15-int-lower-107", "C15", PS, "if -107 <= value <= 107:", "if -107 <= value <= 108:", "F5-int"))
A(V("c15-int-reader-108", "C15", PS, "return (b0 - 247) * 256 + b1 + 108, index + 1", "return (b0 - 247) * 256 + b1 + 107, index + 1", "F5-int"))
A(V("c15-int-table-247", "C15", PS, "t1OperandEncoding[247:251] = (251 - 247) * [read_smallInt1]\nt1OperandEncoding[251:255] = (255 - 251) * [read_smallInt2]", "t1OperandEncoding[247:252] = (252 - 247) * [read_smallInt1]\nt1OperandEncoding[252:255] = (255 - 252) * [read_smallInt2]", "F5-int"))
A(V("c15-int-short-signed", "C15", PS, '    (value,) = struct.unpack(">h", data[index : index + 2])\n    return value, index + 2', '    (value,) = struct.unpack(">H", data[index : index + 2])\n    return value, index + 2', "F5-int"))
A(V("c15-int-neg-bias", "C15", PS, "code = bytechr((value >> 8) + 251) + bytechr(value & 0xFF)", "code = bytechr((value >> 8) + 250) + bytechr(value & 0xFF)", "F5-int"))
A(V("c15-fixed-precision", "C15", PS, "value = floatToFixed(f, precisionBits=16)", "value = floatToFixed(f, precisionBits=15)", "F5-fixed"))
A(V("c15-u32var-writer", "C15", OT, "    elif v < 0x4000:\n        return struct.pack(\">H\", (v | 0x8000))", "    elif v <= 0x4000:\n        return struct.pack(\">H\", (v | 0x8000))", "F5-u32var"))
A(V("c15-u32var-reader", "C15", OT, "    elif b0 < 0xC0:\n        return (b0 - 0x80) << 8 | data[i + 1], i + 2", "    elif b0 <= 0xC0:\n        return (b0 - 0x80) << 8 | data[i + 1], i + 2", "F5-u32var"))
# 506 has two valid encodings (255,253) and (254,0): moving the boundary by one is behaviour-preserving for the round trip
A(V("c15-255-writer-benign", "C15", W2, "    elif value < 506:\n        return struct.pack(\">BB\", 255, value - 253)", "    elif value <= 506:\n        return struct.pack(\">BB\", 255, value - 253)", None, expect=0))
A(V("c15-255-writer", "C15", W2, "    elif value < 506:\n        return struct.pack(\">BB\", 255, value - 253)", "    elif value <= 509:\n        return struct.pack(\">BB\", 255, value - 253)", "F5-255u16"))
A(V("c15-255-reader", "C15", W2, "        result += 506\n", "        result += 505\n", "F5-255u16"))
A(V("c15-b128-mask", "C15", W2, "        result = (result << 7) | (code & 0x7F)", "        result = (result << 7) | (code & 0x3F)", "F5-b128"))
A(V("c15-b128-overflow", "C15", W2, "        if result & 0xFE000000:", "        if result & 0xFC000000:", "F5-b128"))
A(V("c15-points-count-0x80", "C15", TV, "        if numPoints < 0x80:\n", "        if numPoints <= 0x80:\n", "F5-points"))
A(V("c15-points-runlen", "C15", TV, "        MAX_RUN_LENGTH = 127\n", "        MAX_RUN_LENGTH = 128\n", "F5-points"))
A(V("c15-deltas-chunk", "C15", TV, "        while runLength >= 64:\n            bytearr.append(DELTAS_ARE_WORDS | 63)", "        while runLength >= 65:\n            bytearr.append(DELTAS_ARE_WORDS | 63)", "F5-deltas"))
A(V("c15-deltas-typecode", "C15", TV, '                    deltas = array.array("h")\n', '                    deltas = array.array("H")\n', "F5-deltas"))
A(V("c15-deltas-guard", "C15", TV, "                elif -128 <= value <= 127:\n                    pos = TupleVariation.encodeDeltaRunAsBytes_(deltas, pos, bytearr)", "                elif -128 <= value <= 128:\n                    pos = TupleVariation.encodeDeltaRunAsBytes_(deltas, pos, bytearr)", "F5-deltas"))
A(V("c15-eexec-const", "C15", "misc/eexec.py", "def _encryptChar(plain, R):\n    plain = byteord(plain)\n    cipher = ((plain ^ (R >> 8))) & 0xFF\n    R = ((cipher + R) * 52845 + 22719) & 0xFFFF", "def _encryptChar(plain, R):\n    plain = byteord(plain)\n    cipher = ((plain ^ (R >> 8))) & 0xFF\n    R = ((cipher + R) * 52845 + 22791) & 0xFFFF", "F22-eexec"))
A(V("c15-fixed-scale", "C15", "misc/fixedTools.py", "    value = float(string)\n    return otRound(value * (1 << precisionBits))", "    value = float(string)\n    return int(value * (1 << precisionBits))", "F22-fixed"))
A(V("c15-time-sign", "C15", "misc/timeTools.py", "    return int(t.timestamp()) - epoch_diff", "    return int(t.timestamp()) + epoch_diff", "F22-time"))
A(V("c15-nibble-dup", "C15", PS, '    "E-",\n    None,\n    "-",\n]', '    "E-",\n    None,\n    "E",\n]', "F6"))
A(V("c15-t2op-dup", "C15", PS, '    ((12, 35), "flex"),', '    ((12, 34), "flex"),', "F6"))
A(V("c15-tagident-class", "C15", "ttLib/ttFont.py", '    elif re.match("[A-Z]", c):\n        return c + "_"', '    elif re.match("[A-Z]", c):\n        return "_" + c', "TAGID"))
A(V("c15-subr-bias", "C15", PS, "    elif nSubrs < 33900:", "    elif nSubrs < 33800:", "F5-bias"))
# benign
A(V("c15-benign-rename-local", "C15", W2, "    code = byteord(data[:1])\n    data = data[1:]\n    if code == 253:", "    code = byteord(data[:1])\n    data = data[1:]\n    if 253 == code:", None, expect=0))
A(V("c15-benign-hex-literals", "C15", OT, "    if v < 0x80:\n        return struct.pack(\">B\", v)", "    if v < 128:\n        return struct.pack(\">B\", v)", None, expect=0))

# ---- C20 -------------------------------------------------------------------
SF = "ttLib/sfnt.py"
TF = "ttLib/ttFont.py"
A(V("c20-eval-attr", "C20", "ttLib/tables/_m_a_x_p.py", 'setattr(self, name, safeEval(attrs["value"]))', 'setattr(self, name, eval(attrs["value"]))', "F14a"))
A(V("c20-safeeval-rebind", "C20", "misc/textTools.py", "safeEval = ast.literal_eval", "safeEval = eval", "F14c"))
A(V("c20-safeeval-shadow", "C20", "ttLib/tables/_h_e_a_d.py", "from fontTools.misc.textTools import safeEval, num2binary, binary2num", "from fontTools.misc.textTools import num2binary, binary2num\nsafeEval = eval", "F14c"))
A(V("c20-direntry-lencheck-op", "C20", SF, "        if len(data) != self.formatSize:\n", "        if len(data) > self.formatSize:\n", "F17a"))
A(V("c20-direntry-lencheck-size", "C20", SF, "        if len(data) != self.formatSize:\n", "        if len(data) < sfntDirectoryEntrySize:\n", "F17a"))
A(V("c20-drop-lencheck", "C20", SF, "            data = self.file.read(woffDirectorySize)\n            if len(data) != woffDirectorySize:\n                raise TTLibError(\"Not a WOFF font (not enough data)\")\n", "            data = self.file.read(woffDirectorySize)\n", "F17a"))
A(V("c20-assert-back", "C20", SF, "                if len(data) != reader.privLength:\n                    raise TTLibError(\"unexpected end of private data block\")\n", "                assert len(data) == reader.privLength\n", "F17b"))
A(V("c20-wrong-exc", "C20", SF, "            raise TTLibError(\"Not a TrueType or OpenType font (bad sfntVersion)\")", "            raise ValueError(\"Not a TrueType or OpenType font (bad sfntVersion)\")", "F17c"))
A(V("c20-save-open-first", "C20", TF, "        tmp = BytesIO()\n\n        writer_reordersTables = self._save(tmp)\n", "        if createStream:\n            tmp = open(file, \"wb\")\n        else:\n            tmp = BytesIO()\n\n        writer_reordersTables = self._save(tmp)\n", "F16"))
A(V("c20-fallback-narrow", "C20", TF, "            table.decompile(data, self)\n        except Exception:\n            if not self.ignoreDecompileErrors:", "            table.decompile(data, self)\n        except (struct.error, AssertionError):\n            if not self.ignoreDecompileErrors:", "F18"))
A(V("c20-fallback-otherdata", "C20", TF, "            self.tables[tag] = table\n            table.decompile(data, self)\n        if self._tableCache", "            self.tables[tag] = table\n            table.decompile(data[:0], self)\n        if self._tableCache", "F18"))
A(V("c20-defaulttable-strip", "C20", "ttLib/tables/DefaultTable.py", "    def compile(self, ttFont: TTFont) -> bytes:\n        return self.data", "    def compile(self, ttFont: TTFont) -> bytes:\n        return self.data.rstrip(b\"\\0\")", "F18"))
A(V("c20-varlib-basename", "C20", "varLib/__init__.py", "                filename = os.path.basename(vf.filename)", "                filename = vf.filename", "F15"))
A(V("c20-xml-entities", "C20", "misc/xmlReader.py", "        parser.CharacterDataHandler = self._characterDataHandler\n", "        parser.CharacterDataHandler = self._characterDataHandler\n        parser.ExternalEntityRefHandler = self._externalEntity\n", "XMLCFG"))
A(V("c20-subprocess-new", "C20", "ttx.py", "def ttList(input, output, options):\n", "def ttList(input, output, options):\n    import subprocess\n    subprocess.run([\"ls\", input])\n", "F14d"))
A(V("c20-import-data", "C20", TF, "    pyTag = tagToIdentifier(tag)\n    try:\n        __import__(\"fontTools.ttLib.tables.\" + pyTag)", "    pyTag = tagToIdentifier(tag)\n    try:\n        __import__(\"fontTools.ttLib.tables.\" + tag)", "F14b"))
A(V("c20-tagident-dot", "C20", TF, "        return hex(byteord(c))[2:]\n", "        return \".\" + hex(byteord(c))[2:]\n", "F14b"))
A(V("c20-benign-msg", "C20", SF, "raise TTLibError(\"Not a Font Collection\")", "raise TTLibError(\"not a TrueType collection\")", None, expect=0))

# ---- C16 -------------------------------------------------------------------
FB = "feaLib/builder.py"
SUB = "subset/__init__.py"
A(V("c16-drop-sorted-palette", "C16", SUB, "    for new_index, old_index in enumerate(sorted(retained_palette_indices)):", "    for new_index, old_index in enumerate(retained_palette_indices):", "F12"))
A(V("c16-drop-sorted-varc", "C16", SUB, "        usedIndices = sorted(usedIndices)\n        table.AxisIndicesList.Item = _list_subset(axisIndicesList, usedIndices)", "        table.AxisIndicesList.Item = _list_subset(axisIndicesList, usedIndices)", "F12"))
A(V("c16-new-env", "C16", "ttLib/tables/_n_a_m_e.py", "    def compile(self, ttFont):\n", "    def compile(self, ttFont):\n        import os\n        if os.environ.get('FT_NAME_DEBUG'):\n            pass\n", "F13a"))
A(V("c16-timestamp-unguarded", "C16", "ttLib/tables/_h_e_a_d.py", "        if ttFont.recalcTimestamp:\n            self.modified = timestampNow()", "        if ttFont.recalcBBoxes:\n            self.modified = timestampNow()", "F13b"))
A(V("c16-new-store-in-compile", "C16", "ttLib/tables/_p_o_s_t.py", "    def compile(self, ttFont):\n", "    def compile(self, ttFont):\n        self.compiledOnce = True\n", "F11"))
A(V("c16-format-not-deleted", "C16", "ttLib/tables/otBase.py", "        if deleteFormat:\n            del self.Format\n", "        if deleteFormat and writer is None:\n            del self.Format\n", "F11r"))
A(V("c16-lazy-branch", "C16", "ttLib/tables/_l_o_c_a.py", "    def compile(self, ttFont):\n", "    def compile(self, ttFont):\n        if ttFont.lazy:\n            pass\n", "LAZY"))
A(V("c16-passthrough-transform", "C16", "ttLib/ttFont.py", "            log.debug(\"Reading '%s' table from disk\", tag)\n            return self.reader[tag]", "            log.debug(\"Reading '%s' table from disk\", tag)\n            return bytes(self.reader[tag]).rstrip(b\"\\0\")", "LAZY"))
A(V("c16-intern-set", "C16", "ttLib/tables/otBase.py", "        for i, item in enumerate(items):\n            if hasattr(item, \"getCountData\"):", "        for i, item in enumerate(set(items)):\n            if hasattr(item, \"getCountData\"):", "INTERN"))
A(V("c16-colr-glyphmap", "C16", "ttLib/tables/C_O_L_R_.py", "            glyphMap=ttFont.getReverseGlyphMap(rebuild=True),\n", "", "F12d"))
A(V("c16-ttc-restore-order", "C16", "ttLib/ttCollection.py", "                restore.append((font, font.recalcTimestamp))\n                font[\"head\"].modified = now\n                font.recalcTimestamp = False\n", "                font[\"head\"].modified = now\n                font.recalcTimestamp = False\n                restore.append((font, font.recalcTimestamp))\n", "F12d"))
A(V("c16-classdef-unsorted", "C16", "ttLib/tables/otTables.py", "        if items:\n            items.sort()\n            last, lastName, lastCls = items[0]", "        if items:\n            last, lastName, lastCls = items[0]", "F12d"))
A(V("c16-lang-set-join", "C16", FB, "        self.lookups_ = []\n", "        self.lookups_ = []\n        self._langs = \",\".join(set([\"a\", \"b\"]))\n", "F12", count=2))
A(V("c16-benign-sorted-set", "C16", FB, "        self.lookups_ = []\n", "        self.lookups_ = []\n        self._langs = \",\".join(sorted(set([\"a\", \"b\"])))\n", None, expect=0, count=2))

# ---- C07 -------------------------------------------------------------------
A(V("c07-hmtx-unregistered", "C07", SUB, '@_add_method(ttLib.getTableClass("hmtx"))\ndef subset_glyphs(self, s):', 'def _hmtx_subset_glyphs(self, s):', "F20-sub"))
A(V("c07-gvar-nosubset", "C07", SUB, '        "cvar",\n        "STAT",\n    ]', '        "cvar",\n        "STAT",\n        "gvar",\n    ]', "F20-sub"))
A(V("c07-kern-nosubset", "C07", SUB, '        "cvar",\n        "STAT",\n    ]', '        "cvar",\n        "STAT",\n        "kern",\n    ]', "F20-sub"))
A(V("c07-varidx-dropped", "C07", SUB, "    varidx_map = store.subset_varidxes(usedVarIdxes)\n\n    # Map.\n", "    store.subset_varidxes(usedVarIdxes)\n    varidx_map = {}\n\n    # Map.\n", "F19"))
A(V("c07-gpos-remap-forgotten", "C07", SUB, "    table.remap_device_varidxes(varidx_map)\n    if \"GPOS\" in font:\n        font[\"GPOS\"].table.remap_device_varidxes(varidx_map)", "    table.remap_device_varidxes(varidx_map)", "F19"))
A(V("c07-setglyphorder-early", "C07", SUB, "    def _subset_glyphs(self, font):\n        self.used_mark_sets = []\n", "    def _subset_glyphs(self, font):\n        self.used_mark_sets = []\n        font.setGlyphOrder(self.new_glyph_order)\n", "SUB-order"))
A(V("c07-lookup-handler-lost", "C07", SUB, "@_add_method(otTables.ReverseChainSingleSubst)\ndef closure_glyphs(self, s, cur_glyphs):", "def _rcss_closure_glyphs(self, s, cur_glyphs):", "F20-lookups"))
A(V("c07-fallthrough-keeps", "C07", SUB, "                log.warning(\"%s NOT subset; don't know how to subset; dropped\", tag)\n                del font[tag]", "                log.warning(\"%s NOT subset; don't know how to subset; dropped\", tag)", "SUB-order"))

# ---- C08 -------------------------------------------------------------------
INS = "varLib/instancer/__init__.py"
A(V("c08-hvar-call-removed", "C08", INS, "    if \"HVAR\" in varfont:\n        instantiateHVAR(varfont, limits)\n", "", "F20-inst"))
A(V("c08-mvar-wrong-guard", "C08", INS, "    if \"MVAR\" in varfont:\n        instantiateMVAR(varfont, limits)", "    if \"HVAR\" in varfont:\n        instantiateMVAR(varfont, limits)", "F20-inst"))
A(V("c08-fvar-before-tables", "C08", INS, "    if not inplace:\n        varfont = deepcopy(varfont)\n", "    if not inplace:\n        varfont = deepcopy(varfont)\n    instantiateFvar(varfont, axisLimits)\n", "INST-order"))
A(V("c08-optimize-dropped", "C08", INS, "        varIndexMapping = varStore.optimize()\n        gdef.remap_device_varidxes(varIndexMapping)", "        varStore.optimize()\n        varIndexMapping = {}\n        gdef.remap_device_varidxes(varIndexMapping)", "F19"))
A(V("c08-gpos-remap-lost", "C08", INS, "        gdef.remap_device_varidxes(varIndexMapping)\n        if \"GPOS\" in varfont:\n            varfont[\"GPOS\"].table.remap_device_varidxes(varIndexMapping)", "        gdef.remap_device_varidxes(varIndexMapping)", "F19"))

# ---- C17 -------------------------------------------------------------------
RG = "ttLib/reorderGlyphs.py"
SU = "ttLib/scaleUpem.py"
A(V("c17-rcss-parallel-lost", "C17", RG, '        ReorderCoverage(parallel_list_attr="Substitute"),', "        ReorderCoverage(),", "F20-reorder"))
A(V("c17-markarray-typo", "C17", RG, 'coverage_attr="Mark2Coverage", parallel_list_attr="Mark2Array.Mark2Record"', 'coverage_attr="Mark2Coverage", parallel_list_attr="Mark2Array.MarkRecord"', "F20-reorder"))
A(V("c17-pairset-key", "C17", RG, '(ot.PairSet, None): [ReorderList("PairValueRecord", key="SecondGlyph")],', '(ot.PairSet, None): [ReorderList("PairValueRecord", key="Value1")],', "F20-reorder"))
A(V("c17-container-lost", "C17", RG, 'coverage_containers = {"GDEF", "GPOS", "GSUB", "JSTF", "MATH"}', 'coverage_containers = {"GDEF", "GPOS", "GSUB", "JSTF"}', "F20-reorder"))
A(V("c17-setorder-first", "C17", RG, "    font.ensureDecompiled()\n    not_loaded", "    font.setGlyphOrder(new_glyph_order)\n    font.ensureDecompiled()\n    not_loaded", "REORDER-flow", ))
A(V("c17-os2-field-lost", "C17", SU, '                "sTypoLineGap",\n', "", "F20-scale"))
A(V("c17-hhea-typo", "C17", SU, '                "advanceWidthMax",\n', '                "advanceWidthMaximum",\n', "F20-scale"))
A(V("c17-anchor-lost", "C17", SU, '        (otTables.Anchor, ("XCoordinate", "YCoordinate")),  # GPOS\n', '        (otTables.Anchor, ("XCoordinate",)),  # GPOS\n', "F20-scale"))
A(V("c17-vsindex-scaled", "C17", SU, '                if op == "vsindex":\n                    continue\n', "", "SCALE-shape"))
A(V("c17-fontmatrix-mult", "C17", SU, "            topDict.FontMatrix[i] /= visitor.scaleFactor", "            topDict.FontMatrix[i] *= visitor.scaleFactor", "SCALE-shape"))
A(V("c17-benign-rule-order", "C17", RG, '    (ot.SinglePos, 1): [ReorderCoverage()],\n    (ot.SinglePos, 2): [ReorderCoverage(parallel_list_attr="Value")],', '    (ot.SinglePos, 2): [ReorderCoverage(parallel_list_attr="Value")],\n    (ot.SinglePos, 1): [ReorderCoverage()],', None, expect=0))

# ---- C01 / C02 -------------------------------------------------------------
OC = "ttLib/tables/otConverters.py"
OB = "ttLib/tables/otBase.py"
A(V("c01-writer-typo", "C01", OC, "        writer.writeUShort(value)\n\n    def writeArray(self, writer, font, tableDict, values):\n        writer.writeUShortArray(values)", "        writer.writeUshort(value)\n\n    def writeArray(self, writer, font, tableDict, values):\n        writer.writeUShortArray(values)", "F26"))
A(V("c01-short-vs-ushort", ["C01", "C02"], OC, "class Short(IntValue):\n    staticSize = 2\n\n    def read(self, reader, font, tableDict):\n        return reader.readShort()", "class Short(IntValue):\n    staticSize = 2\n\n    def read(self, reader, font, tableDict):\n        return reader.readUShort()", "F2b"))
A(V("c01-staticsize", "C01", OC, "class UInt24(IntValue):\n    staticSize = 3", "class UInt24(IntValue):\n    staticSize = 4", "F2b"))
A(V("c01-reader-code", "C01", OB, '    def readShort(self):\n        return self.readValue("h", staticSize=2)', '    def readShort(self):\n        return self.readValue("H", staticSize=2)', "F2d"))
A(V("c01-f2dot14-bits", "C01", OC, "class F2Dot14(BaseFixedValue):\n    staticSize = 2\n    precisionBits = 14\n    readerMethod = \"readShort\"\n    writerMethod = \"writeShort\"", "class F2Dot14(BaseFixedValue):\n    staticSize = 2\n    precisionBits = 14\n    readerMethod = \"readShort\"\n    writerMethod = \"writeUShort\"", "F2b"))
A(V("c01-ltable-null", "C01", OC, "    def writeNullOffset(self, writer):\n        writer.writeULong(0)", "    def writeNullOffset(self, writer):\n        writer.writeUShort(0)", "F2e"))
A(V("c01-varidx-shift", ["C01", "C02"], OC, "        innerBits = 1 + (fmt & 0x000F)\n        innerMask = (1 << innerBits) - 1\n        outerShift = 16 - innerBits\n\n        entrySize", "        innerBits = 1 + (fmt & 0x000F)\n        innerMask = (1 << innerBits) - 1\n        outerShift = 15 - innerBits\n\n        entrySize", "F2f"))
A(V("c01-otdata-repeat", "C01", "ttLib/tables/otData.py", 'repeat="ScriptCount"', 'repeat="ScriptsCount"', "F3"))
A(V("c01-prewrite-key", "C01", "ttLib/tables/otTables.py", '        rawTable = {"ClassRangeRecord": []}\n        ranges = self._getClassRanges(font)', '        rawTable = {"ClassRangeRecords": []}\n        ranges = self._getClassRanges(font)', "F3k"))
A(V("c01-head-format", ["C01", "C02"], "ttLib/tables/_h_e_a_d.py", "        data = sstruct.pack(headFormat, self)\n        return data", "        data = sstruct.pack(headFormat, self)[:-2] + struct.pack(\">H\", self.glyphDataFormat)\n        return data", "F1"))
A(V("c01-gasp-signed", ["C01", "C02"], "ttLib/tables/_g_a_s_p.py", '            rangeMaxPPEM, rangeGaspBehavior = struct.unpack(">HH", data[:4])', '            rangeMaxPPEM, rangeGaspBehavior = struct.unpack(">hH", data[:4])', "F1"))
A(V("c01-compile-only-override", "C01", "ttLib/tables/_v_m_t_x.py", "    numberOfMetricsName = \"numberOfVMetrics\"", "    numberOfMetricsName = \"numberOfVMetrics\"\n\n    def compile(self, ttFont):\n        return super().compile(ttFont)", "PAIR"))
A(V("c01-generator-stored", "C01", "ttLib/tables/_c_v_t.py", "            values.byteswap()\n        self.values = values\n", "            values.byteswap()\n        self.values = (v for v in values)\n", "F30"))
A(V("c01-woff-boundary", "C01", "ttLib/sfnt.py", "if self.uncompressed or len(compressedData) >= self.origLength:", "if self.uncompressed or len(compressedData) > self.origLength:", "WOFF-RAW"))
A(V("c01-prewrite-sort", "C01", "ttLib/tables/otTables.py", "            for lig in set:\n                ligs.append(lig)", "            for lig in sorted(set, key=lambda l: -len(l.Component)):\n                ligs.append(lig)", "PRE-SORT"))
A(V("c02-comp-guard", ["C02", "C03"], "ttLib/tables/_g_l_y_f.py", "            if transform[0][1] or transform[1][0]:\n                flags = flags | WE_HAVE_A_TWO_BY_TWO", "            if transform[0][1] and transform[1][0]:\n                flags = flags | WE_HAVE_A_TWO_BY_TWO", "F4-comp"))
A(V("c02-comp-narrow", "C02", "ttLib/tables/_g_l_y_f.py", "            if (-128 <= x <= 127) and (-128 <= y <= 127):", "            if (-128 <= x <= 128) and (-128 <= y <= 127):", "F4-comp"))
A(V("c02-comp-flag-layout", "C02", "ttLib/tables/_g_l_y_f.py", '                data = data + struct.pack(">HH", self.firstPt, self.secondPt)\n                flags = flags | ARG_1_AND_2_ARE_WORDS', '                data = data + struct.pack(">HH", self.firstPt, self.secondPt)', "F4-comp"))
A(V("c01-benign-local-rename", "C01", OC, "        fmt = tableDict[\"EntryFormat\"]\n        nItems = tableDict[\"MappingCount\"]", "        fmt = tableDict[\"EntryFormat\"]\n        nItems = tableDict[\"MappingCount\"]\n        _unused = nItems", None, expect=0))

# ---- C03 -------------------------------------------------------------------
A(V("c03-attr-renamed-writer", "C03", "ttLib/tables/_k_e_r_n.py", "        attrs = dict(coverage=self.coverage, format=self.format)", "        attrs = dict(cov=self.coverage, format=self.format)", "F7a"))
A(V("c03-attr-renamed-reader", "C03", "ttLib/tables/_g_a_s_p.py", 'self.gaspRange[safeEval(attrs["rangeMaxPPEM"])] = safeEval(', 'self.gaspRange[safeEval(attrs["rangeMaxPpem"])] = safeEval(', "F7a"))
A(V("c03-escape-dropped", "C03", "misc/xmlWriter.py", '        """Writes text without indentation."""\n        self._writeraw(escape(string), indent=False)', '        """Writes text without indentation."""\n        self._writeraw(string, indent=False)', "F8"))
A(V("c03-attr-unescaped", "C03", "misc/xmlWriter.py", "            data = data + ' %s=\"%s\"' % (attr, escapeattr(value))", "            data = data + ' %s=\"%s\"' % (attr, escape(value))", "F8"))
A(V("c03-quote-not-escaped", "C03", "misc/xmlWriter.py", "    data = data.replace('\"', \"&quot;\")\n", "", "F8"))
A(V("c03-precision-mix", "C03", "ttLib/tables/TupleVariation.py", "            value = str2fl(attrs[\"value\"], 14)", "            value = str2fl(attrs[\"value\"], 16)", "F7p"))
A(V("c03-src-fullpath", "C03", "ttLib/ttFont.py", "writer.simpletag(tagToXML(tag), src=os.path.basename(tablePath))", "writer.simpletag(tagToXML(tag), src=tablePath)", "F7i"))
A(V("c03-benign-newattr", "C03", "ttLib/tables/_g_a_s_p.py", '                    ("rangeMaxPPEM", rangeMaxPPEM),', '                    ("rangeMaxPPEM", rangeMaxPPEM),\n                    ("note", "x"),', None, expect=0))

# ---- C06 -------------------------------------------------------------------
A(V("c06-mask-offset", "C06", OB, "def packUShort(value):\n    return struct.pack(\">H\", value)", "def packUShort(value):\n    return struct.pack(\">H\", value & 0xFFFF)", "C06-wrap"))
A(V("c06-assert-back", "C06", OB, "    if not 0 <= value < 0x1000000:\n", "    if False:\n", "C06-wrap"))
A(V("c06-swallow-overflow", "C06", OB, "                if ok:\n                    continue\n\n                if state is RepackerState.HB_FT:", "                continue\n\n                if state is RepackerState.HB_FT:", "C06-loop"))
A(V("c06-no-reraise", "C06", OB, "                    state = RepackerState.FT_FALLBACK\n                else:\n                    raise", "                    state = RepackerState.FT_FALLBACK\n                else:\n                    return b\"\"", "C06-loop"))
A(V("c06-split-off-by-one", "C06", "ttLib/tables/otTables.py", "        newSubTable.Coverage.glyphs = coverage[oldCount:]\n        newSubTable.PairSet = records[oldCount:]", "        newSubTable.Coverage.glyphs = coverage[oldCount:]\n        newSubTable.PairSet = records[oldCount + 1 :]", "F23"))
A(V("c06-split-boundary", "C06", "ttLib/tables/otTables.py", "        newGlyphs = set(k for k, v in classDefs.items() if v >= oldCount)", "        newGlyphs = set(k for k, v in classDefs.items() if v > oldCount)", "F23"))
A(V("c06-split-move-lost", "C06", "ttLib/tables/otTables.py", "        newSubTable.alternates[key] = item[1]\n        del oldSubTable.alternates[key]", "        del oldSubTable.alternates[key]", "F23"))
A(V("c06-promote-first-only", "C06", "ttLib/tables/otTables.py", "                lookup.SubTable[si] = extSubTable\n                ok = 1", "                lookup.SubTable[0] = extSubTable\n                ok = 1", "C06-loop"))
A(V("c06-dedup-ignores-size", "C06", OB, "        return self.subWriter == other.subWriter and self.offsetSize == other.offsetSize", "        return self.subWriter == other.subWriter", "C06-dedup"))

# ---- C04 -------------------------------------------------------------------
SFW = "ttLib/sfnt.py"
A(V("c04-dep-dropped", "C04", "ttLib/tables/_h_e_a_d.py", '    dependencies = ["maxp", "loca", "CFF ", "CFF2"]', '    dependencies = ["maxp", "CFF ", "CFF2"]', "F10"))
A(V("c04-hhea-dep-dropped", "C04", "ttLib/tables/_h_h_e_a.py", '    dependencies = ["hmtx", "glyf", "CFF ", "CFF2"]', '    dependencies = ["glyf", "CFF ", "CFF2"]', "F10"))
A(V("c04-align-2", "C04", SFW, "                paddedOff = (off + 3) & ~3", "                paddedOff = (off + 1) & ~1", "ALIGN"))
A(V("c04-dir-unsorted", "C04", SFW, "        tables = sorted(self.tables.items())\n        if len(tables) != self.numTables:", "        tables = list(self.tables.items())\n        if len(tables) != self.numTables:", "DIR"))
A(V("c04-checksum-offset", "C04", SFW, '        self.file.seek(head.offset + 8)', '        self.file.seek(head.offset + 12)', "CONST"))
A(V("c04-head-guard-dropped", ["C04", "C20"], SFW, "        if head.length < 12:\n", "        if head.length < 0:\n", "HEAD-patch"))
A(V("c04-searchrange-item", "C04", SFW, "                self.numTables, 16\n            )\n            directory = sstruct.pack(sfntDirectoryFormat, self)", "                self.numTables, 20\n            )\n            directory = sstruct.pack(sfntDirectoryFormat, self)", "CONST"))
A(V("c04-head-window", "C04", SFW, '            entry.checkSum = calcChecksum(data[:8] + b"\\0\\0\\0\\0" + data[12:])\n            self.headTable = data', '            entry.checkSum = calcChecksum(data[:4] + b"\\0\\0\\0\\0" + data[8:])\n            self.headTable = data', "CONST"))
A(V("c04-checksum-of-other-data", "C04", SFW, "            entry.checkSum = calcChecksum(data)\n        entry.saveData(self.file, data)", "            entry.checkSum = calcChecksum(data.rstrip(b\"\\0\"))\n        entry.saveData(self.file, data)", "DIR"))
A(V("c04-vhea-diverged", "C04", "ttLib/tables/_v_h_e_a.py", "                boundsHeightDict[name] = g.yMax - g.yMin\n", "                boundsHeightDict[name] = g.yMax - g.yMin + 1\n", "F22-hv"))
A(V("c04-woff2-checksum-diverged", "C04", "ttLib/woff2.py", "        checksumadjustment = (0xB1B0AFBA - checksum) & 0xFFFFFFFF\n        return checksumadjustment\n\n    def writeMasterChecksum(self):\n        \"\"\"Write checkSumAdjustment to the transformBuffer.\"\"\"", "        checksumadjustment = (0xB1B0AFBA + checksum) & 0xFFFFFFFF\n        return checksumadjustment\n\n    def writeMasterChecksum(self):\n        \"\"\"Write checkSumAdjustment to the transformBuffer.\"\"\"", "F22-hv"))

# ---- C11 -------------------------------------------------------------------
FA = "feaLib/ast.py"
A(V("c11-swap-prefix-suffix", "C11", FA, "        builder.add_chain_context_pos(\n            self.location, prefix, glyphs, suffix, self.lookups\n        )", "        builder.add_chain_context_pos(\n            self.location, suffix, glyphs, prefix, self.lookups\n        )", "F21"))
A(V("c11-builder-method-typo", "C11", FA, "builder.add_cursive_pos(", "builder.add_cursive_position(", "F9-fea"))
A(V("c11-build-removed", "C11", FA, "    def build(self, builder):\n        \"\"\"Calls the builder object's ``add_cursive_pos`` callback.\"\"\"", "    def _build(self, builder):\n        \"\"\"Calls the builder object's ``add_cursive_pos`` callback.\"\"\"", "F9-fea"))
A(V("c11-format2-not-reversed", "C11", "otlLib/builder.py", "reversed(rule.prefix)", "rule.prefix", "FEA-sib", count=2))
A(V("c11-lookups-sorted", "C11", "feaLib/builder.py", "        for lookup in self.lookups_:\n            lookup.lookup_index = None", "        self.lookups_ = sorted(set(self.lookups_), key=id)\n        for lookup in self.lookups_:\n            lookup.lookup_index = None", "FEA-order"))

# ---- C13 -------------------------------------------------------------------
CQ = "cu2qu/cu2qu.py"
A(V("c13-return-unaccepted", "C13", CQ, "        if spline is not None:\n            # done. go home\n            return [(s.real, s.imag) for s in spline]\n\n    raise ApproxNotFoundError(curve)", "        if spline is not None:\n            # done. go home\n            return [(s.real, s.imag) for s in spline]\n\n    return [(s.real, s.imag) for s in curve]", "F25"))
A(V("c13-tolerance-scaled", "C13", CQ, "        spline = cubic_approx_spline(curve, n, max_err, all_quadratic)", "        spline = cubic_approx_spline(curve, n, max_err * 2, all_quadratic)", "F25"))
A(V("c13-no-revalidate", "C13", CQ, "            n += 1\n            last_i = i\n            continue", "            n += 1\n            continue", "F25"))
A(V("c13-wrong-index", "C13", CQ, "cubic_approx_spline(curves[i], n, max_errors[i], all_quadratic)", "cubic_approx_spline(curves[i], n, max_errors[0], all_quadratic)", "F25"))
A(V("c13-reject-weakened", "C13", CQ, "        if abs(d1) > tolerance or not cubic_farthest_fit_inside(", "        if abs(d1) > tolerance and not cubic_farthest_fit_inside(", "F25"))
A(V("c13-qu2cu-gate", "C13", "qu2cu/qu2cu.py", "                if not cubic_farthest_fit_inside(p0, p1, p2, p3, tolerance):\n                    error = tolerance + 1\n                    break\n            if error > tolerance:\n                # Not feasible\n                continue", "                if not cubic_farthest_fit_inside(p0, p1, p2, p3, tolerance):\n                    error = tolerance + 1\n                    break", "F25"))
A(V("c13-benign-rename", "C13", CQ, "    curve = [complex(*p) for p in curve]\n\n    for n in range(1, MAX_N + 1):\n        spline = cubic_approx_spline(curve, n, max_err, all_quadratic)", "    pts = [complex(*p) for p in curve]\n    curve = pts\n\n    for n in range(1, MAX_N + 1):\n        spline = cubic_approx_spline(curve, n, max_err, all_quadratic)", None, expect=0))

# ---- C12 -------------------------------------------------------------------
SPZ = "cffLib/specializer.py"
A(V("c12-handler-lost", "C12", PS, "    def op_hflex1(self, index):", "    def _op_hflex1(self, index):", "F9-cff"))
A(V("c12-maxstack-default", "C12", SPZ, "    maxstack=48,", "    maxstack=49,", "F24"))
A(V("c12-merge-unguarded", "C12", SPZ, "        if new_op and combinedStackUse < maxstack:", "        if new_op:", "F24"))
A(V("c12-topology-del", "C12", SPZ, "    # Some other redundancies change topology (point numbers).\n    if not preserveTopology:\n", "    # Some other redundancies change topology (point numbers).\n    if True:\n", "TOPO"))
A(V("c12-hv-merge-weak", "C12", SPZ, '        elif {op1, op2} == {"vlineto", "hlineto"}:', '        elif {op1, op2} <= {"vlineto", "hlineto"}:', "TOPO"))
A(V("c12-stackuse-before-push", "C12", PS, "            self.operandStack.append(value)\n            maxStackUse = max(maxStackUse, len(self.operandStack))", "            maxStackUse = max(maxStackUse, len(self.operandStack))\n            self.operandStack.append(value)", "F24"))
A(V("c12-subrs-left", "C12", "cffLib/transforms.py", "            for fd in font.FDArray:\n                pd = fd.Private\n                if hasattr(pd, \"Subrs\"):\n                    del pd.Subrs\n", "            for fd in font.FDArray[:1]:\n                pd = fd.Private\n                if hasattr(pd, \"Subrs\"):\n                    del pd.Subrs\n", "CFF-xf"))
A(V("c12-flex-width", "C12", PS, "        dx1, dy1, dx2, dy2, dx3, dx4, dx5, dy5, dx6 = self.popall()", "        dx1, dy1, dx2, dy2, dx3, dx4, dx5, dx6 = self.popall()", "CFF-arity"))

# ---- C19 -------------------------------------------------------------------
DSL = "designspaceLib/__init__.py"
A(V("c19-filenames-k17-back", "C19", "misc/filenames.py", "illegalCharacters = r'\" * + / : < > ? [ \\ ] |'.split(\" \")\nillegalCharacters += [chr(i) for i in range(0, 32)]", "illegalCharacters = r\"\\\" * + / : < > ? [ \\ ] | \\0\".split(\" \")\nillegalCharacters += [chr(i) for i in range(1, 32)]", "F28"))
A(V("c19-existing-case", "C19", "ufoLib/glifLib.py", "                self._existingFileNames = {\n                    fileName.lower() for fileName in self.contents.values()\n                }", "                self._existingFileNames = set(self.contents.values())", "F25-name"))
A(V("c19-add-case", "C19", "ufoLib/glifLib.py", "            self._existingFileNames.add(fileName.lower())", "            self._existingFileNames.add(fileName)", "F25-name"))
A(V("c19-clash-untested", "C19", "ufoLib/filenames.py", "        if fullName.lower() not in existing:\n            finalName = fullName\n            break\n        else:\n            counter += 1\n        if counter >= 999999999999999:", "        if fullName not in existing:\n            finalName = fullName\n            break\n        else:\n            counter += 1\n        if counter >= 999999999999999:", "F25-name"))
A(V("c19-map-backward-order", "C19", DSL, "        backward = sorted((design, user) for user, design in axis_map)", "        backward = [(design, user) for user, design in sorted(axis_map)]", "F22-axis"))
A(V("c19-ds-attr-renamed", "C19", DSL, "            axisElement.attrib[\"hidden\"] = \"1\"", "            axisElement.attrib[\"hide\"] = \"1\"", "F7-ds"))
A(V("c19-ds-elem-renamed", "C19", DSL, "        mappingElement = ET.Element(\"mapping\")", "        mappingElement = ET.Element(\"axismapping\")", "F7-ds"))
A(V("c19-plist-handler", "C19", "misc/plistlib/__init__.py", "_make_element.register(bytearray)(_data_element)\n", "", "F7-plist"))
A(V("c19-maxlen", "C19", "ufoLib/filenames.py", "maxFileNameLength: int = 255", "maxFileNameLength: int = 256", "F28"))

# ---- C10 -------------------------------------------------------------------
VL = "varLib/__init__.py"
A(V("c10-mvar-swap", "C10", "varLib/mvar.py", '    "hasc": ("OS/2", "sTypoAscender"),  # horizontal ascender\n    "hdsc": ("OS/2", "sTypoDescender"),  # horizontal descender', '    "hasc": ("OS/2", "sTypoDescender"),  # horizontal ascender\n    "hdsc": ("OS/2", "sTypoAscender"),  # horizontal descender', "MVAR"))
A(V("c10-mvar-typo", "C10", "varLib/mvar.py", '("OS/2", "sCapHeight")', '("OS/2", "sCapheight")', "MVAR"))
A(V("c10-builder-uncalled", "C10", VL, "    if \"VVAR\" not in exclude and \"vmtx\" in vf:\n        _add_VVAR(vf, model, master_fonts, axisTags)\n", "", "BUILD"))
A(V("c10-wrong-guard", "C10", VL, "    if \"MVAR\" not in exclude:\n        _add_MVAR(vf, model, master_fonts, axisTags)", "    if \"HVAR\" not in exclude:\n        _add_MVAR(vf, model, master_fonts, axisTags)", "BUILD"))
A(V("c10-model-sorted", "C10", VL, "    normalized_master_locs = [\n        {ds.axes[k].tag: v for k, v in loc.items()} for loc in ds.normalized_master_locs\n    ]", "    normalized_master_locs = sorted(\n        ({ds.axes[k].tag: v for k, v in loc.items()} for loc in ds.normalized_master_locs), key=repr\n    )", "BUILD"))
A(V("c10-default-unmapped", "C10", "designspaceLib/__init__.py", "axis.map_forward(axis.default)", "axis.default", "F22-axis", count=2))
A(V("c07-markfilter-not-renumbered", "C07", SUB, "            self.MarkFilteringSet = s.used_mark_sets.index(self.MarkFilteringSet)", "            pass", "REMAP-IDX"))
A(V("c07-palette-not-renumbered", "C07", SUB, "                record.PaletteIndex = new_index", "                pass", "REMAP-IDX"))
A(V("c20-ebdt-unsanitised", "C20", "ttLib/tables/E_B_D_T_.py", "    filename = userNameToFileName(glyphName, suffix=bitmapObject.fileExtension)", "    filename = glyphName + bitmapObject.fileExtension", "F15"))
A(V("c08-swap-hv-metrics", "C08", INS, "        _instantiateGvarGlyph(\n            glyphname, glyf, gvar, hMetrics, vMetrics, axisLimits, optimize=optimize\n        )", "        _instantiateGvarGlyph(\n            glyphname, glyf, gvar, vMetrics, hMetrics, axisLimits, optimize=optimize\n        )", "F21"))
A({"name": "c07-multiple-1to1", "props": ["C07"], "rule": "SUB-1to1", "expect": 1, "edits": [
    {"file": SUB, "old": "@_add_method(\n    otTables.SingleSubst, otTables.AlternateSubst, otTables.ReverseChainSingleSubst\n)\ndef may_have_non_1to1(self):\n    return False", "new": "@_add_method(\n    otTables.SingleSubst, otTables.AlternateSubst, otTables.ReverseChainSingleSubst, otTables.MultipleSubst\n)\ndef may_have_non_1to1(self):\n    return False", "count": 1},
    {"file": SUB, "old": "@_add_method(\n    otTables.MultipleSubst,\n    otTables.LigatureSubst,\n    otTables.ContextSubst,\n    otTables.ChainContextSubst,\n)\ndef may_have_non_1to1(self):", "new": "@_add_method(\n    otTables.LigatureSubst,\n    otTables.ContextSubst,\n    otTables.ChainContextSubst,\n)\ndef may_have_non_1to1(self):", "count": 1}]})
A(V("c07-vvar-twin-diverged", "C07", SUB, "        used.update(s.reverseOrigGlyphMap.values())\n        advIdxes_ = used.copy()\n        retainAdvMap = s.options.retain_gids\n\n    if table.TsbMap:", "        used.update(s.reverseOrigGlyphMap.values())\n        advIdxes_ = used\n        retainAdvMap = s.options.retain_gids\n\n    if table.TsbMap:", "F22-hvar"))
A(V("c03-ttpush-signext", ["C03", "C15"], "ttLib/tables/ttProgram.py", "                                if value >= 0x8000:", "                                if value > 0x8000:", "F5-ttpush"))
A(V("c03-glyf-split-case", ["C03", "C19"], "ttLib/tables/_g_l_y_f.py", "                    existingGlyphFiles.add(glyphPath.lower())", "                    existingGlyphFiles.add(glyphPath)", "F25-name"))
A(V("c08-distances-dropped", "C08", INS, "                mappedMax,\n                axisRange.distanceNegative,\n                axisRange.distancePositive,\n            )", "                mappedMax,\n            )", "DIST"))
A(V("c04-woff2-head-before-loca", "C04", "ttLib/woff2.py", "            self._normaliseGlyfAndLoca(padding=4)\n        self._setHeadTransformFlag()\n", "            self._setHeadTransformFlag()\n            self._normaliseGlyfAndLoca(padding=4)\n", "W2-order"))
A(V("c02-svg-signed-offset", ["C01", "C02"], "ttLib/tables/S_V_G_.py", '">HHLL", doc.startGlyphID', '">HHlL", doc.startGlyphID', "F1w"))
A(V("c02-head-xmin-unsigned", ["C02", "C04"], "ttLib/tables/_h_e_a_d.py", "xMin:               h", "xMin:               H", "SPEC-LAY"))
A(V("c02-hhea-advance-signed", ["C02", "C04"], "ttLib/tables/_h_h_e_a.py", "advanceWidthMax:        H", "advanceWidthMax:        h", "SPEC-LAY"))
# --- rules added after seed round 2 -------------------------------------------------
A(V("c16-os2-save-after-pack", "C16", "ttLib/tables/O_S_2f_2.py", "        self.panose = sstruct.pack(panoseFormat, self.panose)\n", "        self.panose = sstruct.pack(panoseFormat, self.panose)\n        panose = self.panose\n", "SAVE-REST"))
A(V("c16-time-localtime", "C16", "misc/timeTools.py", "return asctime(time.gmtime(max(0, value + epoch_diff)))", "return asctime(time.localtime(max(0, value + epoch_diff)))", "F13z"))
A(V("c16-time-mktime", "C16", "misc/timeTools.py", "    return int(t.timestamp()) - epoch_diff", "    return int(time.mktime(t.timetuple())) - epoch_diff", "F13z"))
A(V("c07-lost-sort", "C07", "subset/__init__.py", "        usedIndices = sorted(usedIndices)\n", "        usedIndices = sorted(usedIndices)\n        usedIndices = None\n", "LOST-UPD", count=2))
A(V("c17-skip-empty-cff", "C17", "ttLib/scaleUpem.py", "                if op == \"vsindex\":\n                    continue", "                if op == \"vsindex\" or not args:\n                    continue", "SKIP"))
A(V("c11-ctx-end-lookup", "C11", "feaLib/builder.py", "        self.cur_lookup_name_ = None\n        self.cur_lookup_ = None\n", "        self.cur_lookup_name_ = None\n", "FEA-ctx", count=1))
A(V("c11-ctx-conditional-reset", "C11", "feaLib/builder.py", "        assert lookup_name in self.named_lookups_, lookup_name\n        self.cur_lookup_ = None\n", "        assert lookup_name in self.named_lookups_, lookup_name\n        if self.cur_lookup_name_:\n            self.cur_lookup_ = None\n", "FEA-ctx"))
A(V("c11-idmap-sort-by-key", "C11", "feaLib/builder.py", "self.markFilterSets_.items(), key=lambda item: item[1]", "self.markFilterSets_.items(), key=lambda item: sorted(item[0])", "IDMAP"))
A(V("c11-idmap-benign-itemgetter", "C11", "feaLib/builder.py", "self.markFilterSets_.items(), key=lambda item: item[1]", "self.markFilterSets_.items(), key=lambda kv: kv[1]", None, expect=0))
A(V("c13-curpt-first-point", "C13", "pens/cu2quPen.py", "                    prev_on_curve = sub_points[-1][0]", "                    prev_on_curve = sub_points[0][0]", "CURPT"))
A(V("c20-touch-wb", "C20", "ttx.py", 'open(output, "a").close()', 'open(output, "wb").close()', "F16t"))
A(V("c12-offsize-3", ["C12", "C01"], "cffLib/__init__.py", "    elif largestOffset < 0x1000000:", "    elif largestOffset <= 0x1000000:", "F5-offsize"))
A(V("c12-offsize-benign-le", ["C12", "C01"], "cffLib/__init__.py", "    if largestOffset < 0x100:", "    if largestOffset <= 0xFF:", None, expect=0))
A(V("c12-rebias-gsubr-local", "C12", "cffLib/transforms.py", "gsubrs._used.index(p[i - 1] + gsubrs._old_bias) - gsubrs._new_bias", "gsubrs._used.index(p[i - 1] + gsubrs._old_bias) - subrs._new_bias", "F5-rebias"))
A(V("c12-rebias-old-from-used", "C12", "cffLib/transforms.py", "subrs._old_bias = calcSubrBias(subrs)", "subrs._old_bias = calcSubrBias(subrs._used)", "F5-rebias"))
A(V("c19-vgate-drop-labels", "C19", "designspaceLib/__init__.py", "            or self.documentObject.locationLabels\n", "", "VGATE"))
A(V("c08-iup-alias", "C08", "ttLib/ttGlyphSet.py", "                    origCoords, control = glyfTable._getCoordinatesAndControls(\n                        self.name, hMetrics, vMetrics\n                    )", "                    origCoords, control = coordinates, _", "IUP-ref"))
A(V("c10-cache-conditional-reset", "C10", "varLib/models.py", "        self.reverseMapping = [locations.index(l) for l in self.locations]\n        self._subModels = {}\n        return new_list", "        self.reverseMapping = [locations.index(l) for l in self.locations]\n        if not new_list:\n            self._subModels = {}\n        return new_list", "CACHE-INV"))
A(V("c02-fvar-not-all-benign", "C02", "ttLib/tables/_f_v_a_r.py", "        includePostScriptNames = any(\n            instance.postscriptNameID != 0xFFFF for instance in self.instances\n        )", "        includePostScriptNames = not all(\n            instance.postscriptNameID == 0xFFFF for instance in self.instances\n        )", None, expect=0))
A(V("c15-sbs-treeheight", "C15", "misc/iftSparseBitSet.py", "    while capacity <= maxValue:", "    while capacity < maxValue:", "SBS"))
A(V("c15-sbs-header-mask", "C15", "misc/iftSparseBitSet.py", "    height = (headerByte >> 2) & 0x1F", "    height = (headerByte >> 2) & 0x0F", "SBS"))
A(V("c15-sbs-le32", "C15", "misc/iftSparseBitSet.py", "            self.data.append((value >> 16) & 0xFF)\n            self.data.append((value >> 24) & 0xFF)", "            self.data.append((value >> 24) & 0xFF)\n            self.data.append((value >> 16) & 0xFF)", "SBS"))
A(V("c15-txt-nibbles", "C15", "misc/textTools.py", "        r = r + h[(i >> 4) & 0xF] + h[i & 0xF]", "        r = r + h[i & 0xF] + h[(i >> 4) & 0xF]", "TXT-pair"))
A(V("c15-txt-pad", "C15", "misc/textTools.py", '            data += b"\\0" * (size - remainder)', '            data += b"\\0" * remainder', "TXT-pair"))
A(V("c15-agl-lower", "C15", "agl.py", "    if any(c >= 0xD800 and c <= 0xDFFF for c in chars):", "    if any(c > 0xD800 and c <= 0xDFFF for c in chars):", "AGL-sur"))

# ---- C14 (third session) -----------------------------------------------------
FP = "pens/filterPen.py"
TP = "pens/transformPen.py"
RP = "pens/roundingPen.py"
RC = "pens/recordingPen.py"
A(V("c14-filter-crossed", "C14", FP, "    def lineTo(self, pt):\n        self._outPen.lineTo(pt)", "    def lineTo(self, pt):\n        self._outPen.moveTo(pt)", "PEN-fwd"))
A(V("c14-filter-kwargs-dropped", "C14", FP, "        self._outPen.addComponent(glyphName, transformation, **kwargs)", "        self._outPen.addComponent(glyphName, transformation)", "PEN-fwd"))
A(V("c14-tee-unstarred", "C14", "pens/teePen.py", "            pen.qCurveTo(*points)", "            pen.qCurveTo(points)", "PEN-fwd"))
A(V("c14-transform-raw-point", "C14", TP, "        self._outPen.lineTo(self._transformPoint(pt))", "        self._outPen.lineTo(pt)", "PEN-coord"))
A(V("c14-transform-qcurve-raw-branch", "C14", TP, "        else:\n            points = self._transformPoints(points)\n        self._outPen.qCurveTo(*points)", "        self._outPen.qCurveTo(*points)", "PEN-coord"))
A(V("c14-transform-no-qcurve", "C14", TP, "    def qCurveTo(self, *points):\n        if points[-1] is None:\n            points = self._transformPoints(points[:-1]) + [None]\n        else:\n            points = self._transformPoints(points)\n        self._outPen.qCurveTo(*points)\n", "", "PEN-coord"))
A(V("c14-rounding-none", "C14", RP, "                (self.roundFunc(pt[0]), self.roundFunc(pt[1])) if pt is not None else None\n                for pt in points", "                (self.roundFunc(pt[0]), self.roundFunc(pt[1]))\n                for pt in points", "PEN-none"))
A(V("c14-record-wrong-op", "C14", RC, '        self.value.append(("qCurveTo", points))', '        self.value.append(("curveTo", points))', "PEN-rec"))
A(V("c14-record-drop-operand", "C14", RC, '        self.value.append(("addComponent", (glyphName, transformation)))', '        self.value.append(("addComponent", (glyphName,)))', "PEN-rec"))
A(V("c14-replay-unstarred", "C14", RC, "        getattr(pen, operator)(*operands)", "        getattr(pen, operator)(operands)", "PEN-rec"))
A(V("c14-vocab-typo", "C14", "pens/pointPen.py", '            elif segmentType == "qcurve":\n                pen.qCurveTo(*points)', '            elif segmentType == "qCurve":\n                pen.qCurveTo(*points)', "PEN-vocab"))
A(V("c14-disp-crossed", "C14", "pens/pointPen.py", '            elif segmentType == "curve":\n                pen.curveTo(*points)', '            elif segmentType == "curve":\n                pen.qCurveTo(*points)', "PEN-disp"))
A(V("c14-vocab-mixed", "C14", "pens/reverseContourPen.py", '    closed = contourType == "closePath"', '    closed = contourType == "closepath"', "PEN-vocab"))
# benign: rename a parameter, reorder methods' internals, equivalent spelling of the None test
A(V("c14-benign-rename-param", "C14", FP, "    def lineTo(self, pt):\n        self._outPen.lineTo(pt)", "    def lineTo(self, point):\n        self._outPen.lineTo(point)", None, expect=0))
A(V("c14-benign-none-spelling", "C14", TP, "        if points[-1] is None:\n            points = self._transformPoints(points[:-1]) + [None]\n        else:\n            points = self._transformPoints(points)", "        if points[-1] is not None:\n            points = self._transformPoints(points)\n        else:\n            points = self._transformPoints(points[:-1]) + [None]", None, expect=0))
A(V("c14-benign-local-outpen", "C14", RP, "    def moveTo(self, pt):\n        self._outPen.moveTo((self.roundFunc(pt[0]), self.roundFunc(pt[1])))", "    def moveTo(self, pt):\n        rounded = (self.roundFunc(pt[0]), self.roundFunc(pt[1]))\n        self._outPen.moveTo(rounded)", None, expect=0))

# ---- C18 (third session) -----------------------------------------------------
ML = "merge/layout.py"
MC = "merge/cmap.py"
MT = "merge/tables.py"
A(V("c18-rename-if-not-while", "C18", MC, '                while (glyphName + "." + repr(n)) in megaOrder:', '                if (glyphName + "." + repr(n)) in megaOrder:', "MRG-names"))
A(V("c18-no-writeback", "C18", MC, "                glyphOrder[i] = glyphName\n", "", "MRG-names"))
A(V("c18-cmap-last-wins", "C18", MC, "            if oldgid is None:\n                cmap[uni] = gid", "            if oldgid is None or True:\n                cmap[uni] = gid", "MRG-cmap"))
A(V("c18-cmap-reversed", "C18", MC, "    for table, fontIdx in chosenCmapTables:", "    for table, fontIdx in reversed(chosenCmapTables):", "MRG-cmap"))
A(V("c18-metrics-first", "C18", MT, '    "metrics": sumDicts,', '    "metrics": first,', "MRG-union"))
A(V("c18-sumdicts-break", "C18", "merge/util.py", "    for item in lst:\n        d.update(item)\n    return d", "    for item in lst:\n        d.update(item)\n        break\n    return d", "MRG-union"))
A(V("c18-map-missing-class", "C18", ML, "    otTables.MarkLigPos,\n    otTables.MarkMarkPos,\n)\ndef mapLookups", "    otTables.MarkLigPos,\n)\ndef mapLookups", "MRG-map"))
A(V("c18-helper-typo", "C18", ML, '                self.RuleSet = ChainTyp + "ClassSet"', '                self.RuleSet = ChainTyp + "ClassRuleSet"', "MRG-map"))
A(V("c18-post-skips-lookuplist", "C18", ML, "            lookupMap = NonhashableDict(t.table.LookupList.Lookup)\n            t.table.FeatureList.mapLookups(lookupMap)\n            t.table.LookupList.mapLookups(lookupMap)", "            lookupMap = NonhashableDict(t.table.LookupList.Lookup)\n            t.table.FeatureList.mapLookups(lookupMap)", "MRG-sym"))
A(V("c18-post-guard-dropped", "C18", ML, "                and GDEF.table.Version >= 0x00010002\n                and GDEF.table.MarkGlyphSetsDef\n            ):\n                markFilteringSetMap = NonhashableDict(", "                and GDEF.table.Version >= 0x00010002\n            ):\n                markFilteringSetMap = NonhashableDict(", "MRG-sym"))
A(V("c18-benign-rename-local", "C18", MC, "    megaOrder = {}\n    for glyphOrder in glyphOrders:", "    megaOrder = dict()\n    for glyphOrder in glyphOrders:", None, expect=0))
A(V("c18-benign-keys-call", "C18", MC, "    merger.glyphOrder = megaOrder = list(megaOrder.keys())", "    merger.glyphOrder = list(megaOrder)", None, expect=0))
# ---- C07 SUB-ctx ---------------------------------------------------------------
SU = "subset/__init__.py"
A(V("c07-ctx-setter-order", "C07", SU, "                def SetChainContextData(r, d):\n                    r.BacktrackClassDef, r.InputClassDef, r.LookAheadClassDef = d", "                def SetChainContextData(r, d):\n                    r.InputClassDef, r.BacktrackClassDef, r.LookAheadClassDef = d", "SUB-ctx"))
A(V("c07-ctx-name-typo", "C07", SU, '                self.RuleSetCount = ChainTyp + "ClassSetCount"', '                self.RuleSetCount = ChainTyp + "ClassSetsCount"', "SUB-ctx"))

# ---- third session: one canonical break per rule added after seed round 4 / the side notes -------------------------
OTC = "ttLib/tables/otConverters.py"
A(V("s3-recsize-removed", ["C01", "C02"], OTC, "class ValueRecord(ValueFormat):\n    def getRecordSize(self, reader):\n        return 2 * len(reader[self.which])\n\n", "class ValueRecord(ValueFormat):\n", "REC-SIZE"))
A(V("s3-uniq-pool-keys", "C19", "ufoLib/converters.py", "list(firstRenamedGroups.values())", "list(firstRenamedGroups.keys())", "UNIQ-pool"))
A(V("s3-lazy-neg", "C01", "misc/lazyTools.py", "            if k < 0:\n                # the item reader locates the record by its non-negative index\n                k += len(self.data)\n", "", "LAZY-neg"))
A(V("s3-reorder-null", "C17", "ttLib/reorderGlyphs.py", "        if coverage is None:\n            # an optional coverage with a NULL offset, e.g.\n            # MathVariants.HorizGlyphCoverage when there are only vertical variants\n            return\n", "", "REORDER-null"))
A(V("s3-unbound-version", "C03", "ttLib/ttFont.py", '                if writeVersion:\n                    tableWriter.begintag("ttFont", ttLibVersion=version)\n                else:\n                    tableWriter.begintag("ttFont")\n', '                tableWriter.begintag("ttFont", ttLibVersion=version)\n', "UNBOUND"))
A(V("s3-attr-typo", "C01", "ttLib/tables/S__i_l_f.py", 'struct.pack((">%dH" % self.numCritFeatures), *self.critFeatures)', 'struct.pack((">%dH" % self.numCritFeaturs), *self.critFeatures)', "ATTR-NEAR"))
A(V("s3-dead-def", "C15", "misc/psCharStrings.py", "\n        return encodeFixed\n\n    def decompile(self):\n        if self.bytecode is None:", "\n    def decompile(self):\n        if self.bytecode is None:", "DEAD-DEF"))
A(V("s3-cache-key", "C15", "misc/sstruct.py", "        _formatcache[fmt, keep_pad_byte] = formatstring, names, fixes", "        _formatcache[fmt] = formatstring, names, fixes", "CACHE-KEY"))
A(V("s3-comment-dashes", "C03", "misc/xmlWriter.py", '        while "--" in data:\n            data = data.replace("--", "- -")\n', "", "F8"))
A(V("s3-woff-assert", "C20", "ttLib/sfnt.py", "            if len(data) != self.origLength:\n                raise TTLibError(\n                    \"unexpected size for decompressed '%s' table\" % self.tag\n                )\n", "            assert len(data) == self.origLength\n", "F17b"))
A(V("s3-colr-glyphmap", "C16", "subset/__init__.py", "        glyphMap=s.reverseOrigGlyphMap,\n", "", "F12d"))
A(V("s3-fea-langsys-unsorted", ["C16", "C11"], "feaLib/builder.py", "        for script, lang in sorted(self.language_systems):\n            key = (script, lang, feature_name)", "        for script, lang in self.language_systems:\n            key = (script, lang, feature_name)", "F12"))
A(V("s3-bsln-unsorted", "C16", "subset/__init__.py", "            for glyph in sorted(s.glyphs)\n        }\n        if len(baselines) > 0:", "            for glyph in s.glyphs\n        }\n        if len(baselines) > 0:", "F12d"))
A(V("s3-dehint-last-token", "C12", "cffLib/transforms.py", "            end = len(charString.program)\n            if end and charString.program[-1] in (\"return\", \"endchar\"):\n                end -= 1\n            for i in range(hints.last_checked, end):", "            for i in range(hints.last_checked, len(charString.program) - 1):", "LEN-1"))
A(V("s3-rounding-none", "C14", "pens/roundingPen.py", " if pt is not None else None", "", "PEN-none"))
A(V("s3-postmerge-guard", "C18", "merge/layout.py", "                and GDEF.table.Version >= 0x00010002\n                and GDEF.table.MarkGlyphSetsDef\n            ):\n                markFilteringSetMap = NonhashableDict(", "                and GDEF.table.Version >= 0x00010002\n            ):\n                markFilteringSetMap = NonhashableDict(", "MRG-sym"))
# benign twins of the refactoring round's shapes, kept as permanent silent-cases
A(V("s3-benign-early-return", ["C01", "C16"], "ttLib/ttFont.py", "        elif self.reader and tag in self.reader:\n            log.debug(\"Reading '%s' table from disk\", tag)\n            return self.reader[tag]\n        else:\n            raise KeyError(tag)", "        if not self.reader or tag not in self.reader:\n            raise KeyError(tag)\n        log.debug(\"Reading '%s' table from disk\", tag)\n        return self.reader[tag]", None, expect=0))
A(V("s3-benign-alias", ["C04", "C20"], "ttLib/sfnt.py", "        head = self.tables[\"head\"]\n        if head.length < 12:", "        headEntry = self.tables[\"head\"]\n        head = headEntry\n        if head.length < 12:", None, expect=0))
A(V("s3-benign-epoch-arms", "C16", "misc/timeTools.py", "    if source_date_epoch is not None:\n        return int(source_date_epoch) - epoch_diff\n    return int(time.time() - epoch_diff)", "    if source_date_epoch is None:\n        return int(time.time() - epoch_diff)\n    return int(source_date_epoch) - epoch_diff", None, expect=0))
# ---- session 3b: DEAD-STORE ---------------------------------------------------
_VSI_OLD = '        if hasattr(private, "vsindex"):\n            if private.vsindex in vsindexMapping:\n                private.vsindex = vsindexMapping[private.vsindex]\n'
A(V("s3-dead-store-vsindex", "C08", "varLib/instancer/__init__.py", _VSI_OLD, '        if hasattr(private, "vsindex"):\n            vsindex = private.vsindex\n            if vsindex in vsindexMapping:\n                vsindex = vsindexMapping[vsindex]\n', "DEAD-STORE"))
A(V("s3-dead-store-benign", "C08", "varLib/instancer/__init__.py", _VSI_OLD, '        if hasattr(private, "vsindex"):\n            vsindex = private.vsindex\n            if vsindex in vsindexMapping:\n                vsindex = vsindexMapping[vsindex]\n                private.vsindex = vsindex\n', None, expect=0))
# ---- F5-half (short offset arrays) ------------------------------------------------
A(V("c02-half-loca-limit", "C02", "ttLib/tables/_l_o_c_a.py", "if max_location < 0x20000 and all(", "if max_location <= 0x20000 and all(", "F5-half"))
A(V("c02-half-loca-even", "C02", "ttLib/tables/_l_o_c_a.py", "if max_location < 0x20000 and all(l % 2 == 0 for l in self.locations):", "if max_location < 0x20000:", "F5-half"))
A(V("c02-half-loca-format", "C02", "ttLib/tables/_l_o_c_a.py", 'locations = array.array("I", self.locations)\n            ttFont["head"].indexToLocFormat = 1', 'locations = array.array("I", self.locations)\n            ttFont["head"].indexToLocFormat = 0', "F5-half"))
A(V("c02-half-gvar-limit", "C02", "ttLib/tables/_g_v_a_r.py", "if max(offsets) <= 0xFFFF * 2:", "if max(offsets) <= 0xFFFF * 2 + 2:", "F5-half"))
A(V("c02-half-loca-benign-swap", "C02", "ttLib/tables/_l_o_c_a.py", '        if max_location < 0x20000 and all(l % 2 == 0 for l in self.locations):\n            locations = array.array("H")\n            for location in self.locations:\n                locations.append(location // 2)\n            ttFont["head"].indexToLocFormat = 0\n        else:\n            locations = array.array("I", self.locations)\n            ttFont["head"].indexToLocFormat = 1\n', '        if max_location >= 0x20000 or not all(l % 2 == 0 for l in self.locations):\n            locations = array.array("I", self.locations)\n            ttFont["head"].indexToLocFormat = 1\n        else:\n            locations = array.array("H")\n            for location in self.locations:\n                locations.append(location // 2)\n            ttFont["head"].indexToLocFormat = 0\n', None, expect=0))
A(V("c04-searchrange-formula", "C04", "ttLib/ttFont.py", "    searchRange = (2**exponent) * itemSize\n", "    searchRange = (2**exponent) * itemSize * 2\n", "DIR"))
A(V("c04-rangeshift-formula", "C04", "ttLib/ttFont.py", "    rangeShift = max(0, n * itemSize - searchRange)\n", "    rangeShift = max(0, n * itemSize - searchRange - itemSize)\n", "DIR"))
A(V("c06-markbase-rebase", "C06", "ttLib/tables/otTables.py", "            markRecord.Class -= oldClassCount\n", "            markRecord.Class -= newClassCount\n", "F23"))
A(V("c06-markbase-count", "C06", "ttLib/tables/otTables.py", "    newClassCount = classCount - oldClassCount\n", "    newClassCount = classCount - oldClassCount - 1\n", "F23"))
A(V("c15-eexec-feedback-plain", "C15", "misc/eexec.py", "    cipher = ((plain ^ (R >> 8))) & 0xFF\n    R = ((cipher + R) * 52845 + 22719) & 0xFFFF", "    cipher = ((plain ^ (R >> 8))) & 0xFF\n    R = ((plain + R) * 52845 + 22719) & 0xFFFF", "F22-eexec"))
A(V("c15-eexec-benign-rename", "C15", "misc/eexec.py", "    plain = byteord(plain)\n    cipher = ((plain ^ (R >> 8))) & 0xFF\n    R = ((cipher + R) * 52845 + 22719) & 0xFFFF\n    return bytechr(cipher), R", "    p = byteord(plain)\n    c = (p ^ (R >> 8)) & 0xFF\n    newR = ((c + R) * 52845 + 22719) & 0xFFFF\n    return bytechr(c), newR", None, expect=0))
A(V("c15-sbs-advance32", "C15", "misc/iftSparseBitSet.py", "            self.byteIndex += 4\n", "            self.byteIndex += 3\n", "SBS"))
A(V("c15-sbs-wrap", "C15", "misc/iftSparseBitSet.py", "            if self.subIndex >= 8:\n                self.subIndex = 0\n                self.byteIndex += 1", "            if self.subIndex >= 7:\n                self.subIndex = 0\n                self.byteIndex += 1", "SBS"))
A(V("c15-sstruct-iter-sorted", "C15", "misc/sstruct.py", "    for i, name in enumerate(names.keys()):", "    for i, name in enumerate(sorted(names.keys())):", "F22-sstruct"))
A(V("c15-sstruct-fix-bits", "C15", "misc/sstruct.py", "            value = fi2fl(value, fixes[name])", "            value = fi2fl(value, fixes[name] + 1)", "F22-sstruct"))
A(V("c03-src-cwd", "C03", "misc/xmlReader.py", "                dirname = os.path.dirname(self.file.name)\n", "                dirname = os.getcwd()\n", "F7i"))
A(V("c07-seac-from-front", ["C07", "C12"], "subset/cff.py", "adx, ady, bchar, achar = args[-4:]", "adx, ady, bchar, achar = args[:4]", "T2-WIDTH"))
A(V("c03-none-in-ttfont", "C03", "ttLib/tables/_c_m_a_p.py", '_hasGlyphNamedNone = "None" in ttFont.getGlyphOrder()', '_hasGlyphNamedNone = "None" in ttFont', "TAG-LIT"))
A(V("c10-search-gives-up", "C10", "varLib/merger.py", "                if rec.SecondGlyph == secondGlyph:\n                    return rec\n            continue\n", "                if rec.SecondGlyph == secondGlyph:\n                    return rec\n            return None\n", "EARLY-NEG"))
A(V("c10-tolerance-not-forwarded", "C10", "varLib/__init__.py", "                var.optimize(origCoords, endPts, tolerance=tolerance)", "                var.optimize(origCoords, endPts)", "OPT-UNUSED"))
A(V("c19-glif-formatversion-dropped", "C19", "ufoLib/glifLib.py", "            outline,\n            formatVersion=formatVersion,\n            identifiers=identifiers,", "            outline,\n            identifiers=identifiers,", "KW-FWD"))
A(V("c07-varc-covered-never-filled", "C07", "subset/__init__.py", "            covered.add(glyphName)\n            idx = glyphMap.get(glyphName)", "            idx = glyphMap.get(glyphName)", "EMPTY-COLL"))
A(V("c16-ebdt-strike-set-order", "C16", "subset/__init__.py", "        {g: bitmap for g, bitmap in strike.items() if g in s.glyphs}\n        for strike in self.strikeData\n", "        {g: strike[g] for g in s.glyphs if g in strike}\n        for strike in self.strikeData\n", "F12"))
A(V("c04-woff2-version-overwrite", "C04", "ttLib/woff2.py", "            self.minorVersion = data.minorVersion\n", "            self.majorVersion = data.minorVersion\n", "OVERWRITE"))
A(V("c20-woff-short-head-read", "C20", "ttLib/sfnt.py", 'if hasattr(self, "headTable") and len(self.headTable) >= 8:', 'if hasattr(self, "headTable"):', "HEAD-read"))
A(V("c16-post-extranames-stored", "C16", "ttLib/tables/_p_o_s_t.py", "        extraNames = [\n            n for n in self.extraNames if n not in standardGlyphOrder", "        extraNames = self.extraNames = [\n            n for n in self.extraNames if n not in standardGlyphOrder", "F11h"))
A(V("c11-contourpoint-truthy", "C11", "feaLib/ast.py", "        if self.contourpoint is not None:", "        if self.contourpoint:", "FEA-num", count=2))

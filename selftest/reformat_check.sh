#!/bin/sh
# Robustness self-test: every check must stay silent on a behaviour-preserving re-format of the
# whole package (black with a different line length applied to a scratch copy).
set -e
S=$(mktemp -d /tmp/verif-reformat-XXXX)
mkdir -p $S/Lib && cp -r ${VERIF_REPO:-/repo}/Lib/fontTools $S/Lib/
/venv/bin/python -m black -q -l 100 $S/Lib/fontTools
cd "$(dirname "$0")/.."
rc=0
for p in $(python3 -c "import json;print(' '.join(c['property_id'] for c in json.load(open('MANIFEST.json'))['checks']))"); do
  VERIF_EVIDENCE_DIR=$S/ev ./check $p --repo $S | tail -1 | grep -q "^OK" || { echo "FALSE ALARM on reformatted tree: $p"; rc=1; }
done
rm -rf $S
[ $rc = 0 ] && echo "all checks silent on the reformatted tree"
exit $rc

#!/usr/bin/env python3
"""Self-test of the static checks (not a registered check).

Each variant is a small source edit of /repo/Lib/fontTools (a string
replacement in one file, or a unified diff under seeded/).  For every variant
the harness copies Lib/fontTools into a scratch directory outside /repo and
/verif, applies the edit, byte-compiles the edited file (the variant must still
compile), runs `./check <prop> --repo <scratch>` and compares exit status and
reported rule with the expectation.  Benign variants must stay exit 0.

usage: selftest/run.py [-j N] [-k substr] [--list]
"""
import argparse, json, os, py_compile, shutil, subprocess, sys, tempfile
from concurrent.futures import ProcessPoolExecutor

HERE = os.path.dirname(os.path.abspath(__file__))
VERIF = os.path.dirname(HERE)
REPO = os.environ.get("VERIF_REPO", "/repo")
sys.path.insert(0, HERE)


def run_variant(v):
    scratch = tempfile.mkdtemp(prefix="verif-selftest-", dir=os.environ.get("TMPDIR", "/tmp"))
    try:
        dst = os.path.join(scratch, "Lib", "fontTools")
        shutil.copytree(os.path.join(REPO, "Lib", "fontTools"), dst, ignore=shutil.ignore_patterns("__pycache__", "*.pyc"))
        touched = []
        if "patch" in v:
            r = subprocess.run(["patch", "-p1", "-s", "--fuzz=3", "-d", scratch, "-i", os.path.join(VERIF, v["patch"])], capture_output=True, text=True)
            if r.returncode != 0:
                return v, "SETUP-FAIL", "patch does not apply: " + r.stdout[-300:] + r.stderr[-300:]
        for ed in v.get("edits", []):
            path = os.path.join(dst, ed["file"])
            src = open(path).read()
            if src.count(ed["old"]) != ed.get("count", 1):
                return v, "SETUP-FAIL", f"{ed['file']}: expected {ed.get('count',1)} occurrence(s) of {ed['old']!r}, found {src.count(ed['old'])}"
            src = src.replace(ed["old"], ed["new"])
            open(path, "w").write(src)
            touched.append(path)
        for path in touched:
            try:
                py_compile.compile(path, cfile=os.path.join(scratch, "x.pyc"), doraise=True)
            except py_compile.PyCompileError as e:
                return v, "SETUP-FAIL", "variant does not compile: " + str(e)[:200]
        outs = []
        verdict = "OK"
        for prop in v["props"]:
            env = dict(os.environ, VERIF_EVIDENCE_DIR=os.path.join(scratch, "evidence"))
            r = subprocess.run([os.path.join(VERIF, "check"), prop, "--repo", scratch], capture_output=True, text=True, env=env)
            outs.append(r.stdout[-3000:])
            expect = v.get("expect", 1)
            if r.returncode != expect:
                verdict = f"MISS(exit={r.returncode},want={expect})" if expect == 1 else f"FALSE-ALARM(exit={r.returncode})"
            elif expect == 1 and v.get("rule") and not any(v["rule"] in line for line in r.stdout.splitlines() if "UNDISCHARGED" in line):
                verdict = f"WRONG-RULE(want {v['rule']})"
        return v, verdict, "\n".join(outs)
    finally:
        shutil.rmtree(scratch, ignore_errors=True)


def main():
    ap = argparse.ArgumentParser()
    ap.add_argument("-j", type=int, default=min(16, os.cpu_count() or 4))
    ap.add_argument("-k", default=None)
    ap.add_argument("--list", action="store_true")
    ap.add_argument("-v", action="store_true")
    a = ap.parse_args()
    from variants import VARIANTS

    vs = [v for v in VARIANTS if not a.k or a.k in v["name"] or a.k in v["props"]]
    if a.list:
        for v in vs:
            print(v["name"], v["props"], v.get("rule"), "benign" if v.get("expect", 1) == 0 else "")
        return 0
    bad = 0
    with ProcessPoolExecutor(a.j) as ex:
        for v, verdict, out in ex.map(run_variant, vs):
            print(f"{verdict:28s} {v['name']}  {v['props']} {v.get('rule','')}")
            if verdict != "OK":
                bad += 1
                if a.v or True:
                    print("    " + "\n    ".join(l for l in out.splitlines() if "UNDISCHARGED" in l or "ANALYSIS" in l or "SETUP" in l or "patch" in l)[:1500])
    print(f"{len(vs)} variants, {bad} not as expected")
    return 1 if bad else 0


if __name__ == "__main__":
    sys.exit(main())

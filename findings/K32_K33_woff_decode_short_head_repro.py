"""Side-note reproducers for C20 (genuine behaviour of the UNMODIFIED tree).
Run from the checkout root:  PYTHONPATH=Lib python sidenote_repro.py
"""
import io, logging
from fontTools.ttLib import TTFont, TTLibError
from fontTools.ttLib.sfnt import SFNTReader, SFNTWriter

logging.disable(logging.CRITICAL)
raw = open("Tests/ttx/data/TestTTF.ttf", "rb").read()
r = SFNTReader(io.BytesIO(raw))
orig = {t: r[t] for t in r.keys()}


def rebuild(tabs):
    out = io.BytesIO()
    w = SFNTWriter(out, len(tabs), r.sfntVersion)
    for t, d in tabs.items():
        w[t] = d
    w.close()
    return out.getvalue()


# S1: a 'head' table cut to <= 8 bytes, kept raw, makes save() corrupt the NEXT table
tabs = dict(orig)
tabs["head"] = orig["head"][:8]
# build the damaged input by patching the directory of a good file, so that the
# input itself is exactly "good font with head.length = 8"
good = bytearray(raw)
n = int.from_bytes(good[4:6], "big")
for i in range(n):
    o = 12 + 16 * i
    if good[o : o + 4] == b"head":
        good[o + 12 : o + 16] = (8).to_bytes(4, "big")
f = TTFont(io.BytesIO(bytes(good)), ignoreDecompileErrors=True, recalcBBoxes=False, recalcTimestamp=False)
assert type(f["head"]).__name__ == "DefaultTable"
out = io.BytesIO()
f.save(out)
r2 = SFNTReader(io.BytesIO(out.getvalue()))
changed = [t for t in orig if t != "head" and r2[t] != orig[t]]
print("S1: tables other than 'head' changed by re-saving a font with an 8-byte head:", changed)

# S2: damaged 'post' + ignoreDecompileErrors=True: the font cannot be dumped
tabs = dict(orig)
tabs["post"] = orig["post"][: len(orig["post"]) // 2]
f = TTFont(io.BytesIO(rebuild(tabs)), ignoreDecompileErrors=True)
try:
    f.saveXML(io.StringIO())
    print("S2: saveXML ok")
except Exception as e:
    print("S2: saveXML of font with undecodable 'post' ->", type(e).__name__, e)

# S3: WOFF table payload corruption escapes as zlib.error even with ignoreDecompileErrors
w = open("Tests/ttx/data/TestWOFF.woff", "rb").read()
rd = SFNTReader(io.BytesIO(w))
tag, e = next((t, e) for t, e in rd.tables.items() if e.length != e.origLength)
d = bytearray(w)
d[e.offset] ^= 0xFF
f = TTFont(io.BytesIO(bytes(d)), ignoreDecompileErrors=True)
try:
    f[tag]
    print("S3: ok")
except TTLibError as ex:
    print("S3: TTLibError", ex)
except Exception as ex:
    print("S3: loading corrupt compressed WOFF table %r ->" % tag, type(ex).__module__ + "." + type(ex).__name__, ex)

"""K37 (C01): Silf.compile read self.numCritFeaturs (typo): any Graphite Silf table with critical features raised
AttributeError on save.  exit 0 = compiles and round-trips."""
import io
from fontTools.ttLib import TTFont
f = TTFont("Tests/ttLib/tables/data/graphite/graphite_tests.ttf")
f["Silf"].silfs[0].critFeatures = [1, 2]
out = io.BytesIO(); f.save(out)
g = TTFont(io.BytesIO(out.getvalue()))
assert list(g["Silf"].silfs[0].critFeatures) == [1, 2], g["Silf"].silfs[0].critFeatures
print("ok")

"""K35 (C03): TTFont.saveXML(path, writeVersion=False, splitTables=True) raised UnboundLocalError ('version' is only
bound under `if writeVersion:` but used under `if splitTables:`).  exit 0 = dump written and re-importable."""
import os, sys, tempfile
from fontTools.ttLib import TTFont
d = tempfile.mkdtemp()
f = TTFont("Tests/ttx/data/TestTTF.ttf")
out = os.path.join(d, "x.ttx")
f.saveXML(out, writeVersion=False, splitTables=True)
g = TTFont(); g.importXML(out)
assert sorted(g.keys()) == sorted(f.keys())
print("ok")

import io, copy
from fontTools.ttLib import TTFont
from fontTools.ttLib.reorderGlyphs import reorderGlyphs
p="/repo/Tests/ttLib/data/varc-ac00-ac01.ttf"
f=TTFont(p, lazy=False)
order=f.getGlyphOrder(); print(len(order))
t=f["VARC"].table
cov=t.Coverage.glyphs; comps=t.VarCompositeGlyphs.VarCompositeGlyph
extra=[g for g in order if g not in cov][:6]
for g in extra:
    cov.append(g); comps.append(copy.deepcopy(comps[0]))
# keep coverage sorted by gid with parallel comps
pairs=sorted(zip(cov,comps), key=lambda pc: f.getGlyphID(pc[0]))
t.Coverage.glyphs=[a for a,b in pairs]; t.VarCompositeGlyphs.VarCompositeGlyph=[b for a,b in pairs]
buf=io.BytesIO(); f.save(buf)
data=buf.getvalue()
g=TTFont(io.BytesIO(data), lazy=False)
ref={gn:[c.glyphName for c in comp.components] for gn,comp in zip(g["VARC"].table.Coverage.glyphs, g["VARC"].table.VarCompositeGlyphs.VarCompositeGlyph)}
for lazy in (False, None, True):
    h=TTFont(io.BytesIO(data), lazy=lazy)
    print(lazy, type(h["VARC"].table.VarCompositeGlyphs.VarCompositeGlyph).__name__, len(h["VARC"].table.VarCompositeGlyphs.VarCompositeGlyph))
    o=h.getGlyphOrder(); new=[o[0]]+list(reversed(o[1:]))
    reorderGlyphs(h,new)
    got={gn:[c.glyphName for c in comp.components] for gn,comp in zip(h["VARC"].table.Coverage.glyphs, h["VARC"].table.VarCompositeGlyphs.VarCompositeGlyph)}
    bad=[k for k in ref if ref[k]!=got.get(k)]
    print("  mismatching composites after reorder:", len(bad), [(k, ref[k],got.get(k)) for k in bad[:1]])

"""K46 (C07): VARC.closure_glyphs kept a `covered` set that nothing ever added to, so a VarComposite glyph with a
component that refers to the glyph itself (the documented idiom for "draw my own outline here") or a cyclic
reference made the subsetter loop forever.  Exit 0 = terminates (fixed), 1 = hangs."""
import signal, sys
from fontTools.ttLib import TTFont
from fontTools import subset

f = TTFont("Tests/ttLib/data/varc-ac00-ac01.ttf")
varc = f["VARC"].table
cov = varc.Coverage.glyphs
varc.VarCompositeGlyphs.VarCompositeGlyph[0].components[0].glyphName = cov[0]  # self reference


def handler(*a):
    print("VARC closure did not terminate within 10 s")
    sys.exit(1)


signal.signal(signal.SIGALRM, handler)
signal.alarm(10)
s = subset.Subsetter(subset.Options())
s.populate(glyphs=[cov[0]])
s.subset(f)
signal.alarm(0)
assert cov[0] in f.getGlyphOrder()
print("ok")

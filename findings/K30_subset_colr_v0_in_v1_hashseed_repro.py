"""K30 (C16): subsetting a COLRv1 font that also has COLRv0 base glyphs emitted the v0 LayerRecords in PYTHONHASHSEED
order: COLR.subset_glyphs rebuilt ColorLayers while iterating the set s.glyphs and called populateCOLRv0 without a glyphMap.
Run: PYTHONPATH=/repo/Lib /venv/bin/python K30_subset_colr_v0_in_v1_hashseed_repro.py (exit 0 = one output)"""
import os, subprocess, sys

CHILD = r'''
import hashlib; from io import BytesIO
from fontTools.fontBuilder import FontBuilder
from fontTools.pens.ttGlyphPen import TTGlyphPen
from fontTools.ttLib import TTFont
from fontTools.ttLib.tables.otTables import PaintFormat
from fontTools import subset
names = [".notdef"] + ["base%d" % i for i in range(6)] + ["lay%d" % i for i in range(6)] + ["v1base", "v1lay"]
fb = FontBuilder(1000, isTTF=True); fb.setupGlyphOrder(names)
fb.setupCharacterMap({0x41 + i: "base%d" % i for i in range(6)} | {0x61: "v1base"})
pen = TTGlyphPen(None); pen.moveTo((0, 0)); pen.lineTo((100, 0)); pen.lineTo((100, 100)); pen.closePath(); sq = pen.glyph()
fb.setupGlyf({n: sq for n in names}); fb.setupHorizontalMetrics({n: (500, 0) for n in names}); fb.setupHorizontalHeader()
fb.setupNameTable({"familyName": "T", "styleName": "R"}); fb.setupOS2(); fb.setupPost()
glyphs = {"base%d" % i: [("lay%d" % i, i % 2)] for i in range(6)}
glyphs["v1base"] = (PaintFormat.PaintGlyph, (PaintFormat.PaintSolid, 0, 1.0), "v1lay")
fb.setupCOLR(glyphs); fb.setupCPAL([[(1, 0, 0, 1), (0, 1, 0, 1)]])
buf = BytesIO(); fb.font.save(buf)
font = TTFont(BytesIO(buf.getvalue()), recalcTimestamp=False)
s = subset.Subsetter(); s.populate(unicodes=list(range(0x41, 0x47)) + [0x61]); s.subset(font)
out = BytesIO(); font.save(out)
print(hashlib.md5(TTFont(BytesIO(out.getvalue())).getTableData("COLR")).hexdigest(), [r.LayerGlyph for r in font["COLR"].table.LayerRecordArray.LayerRecord])
'''
outs = set()
for seed in range(6):
    r = subprocess.run([sys.executable, "-c", CHILD], capture_output=True, text=True, env=dict(os.environ, PYTHONHASHSEED=str(seed)))
    outs.add(r.stdout.strip() or r.stderr.strip()[-400:])
for o in outs: print(o)
sys.exit(0 if len(outs) == 1 else 1)

"""K24 (C14): RoundingPen.qCurveTo crashed on TrueType's closed quadratic contour without on-curve
points (qCurveTo(*offcurves, None)), which the segment-pen protocol allows and every other relay handles.
Run: PYTHONPATH=/repo/Lib /venv/bin/python K24_roundingpen_none_repro.py   (exit 0 = property holds)"""
from fontTools.pens.recordingPen import RecordingPen
from fontTools.pens.roundingPen import RoundingPen

rec = RecordingPen()
pen = RoundingPen(rec)
pen.qCurveTo((0.4, 0.6), (10.5, 0.2), (10.4, 9.7), (0.1, 10.2), None)
pen.closePath()
assert rec.value == [("qCurveTo", ((0, 1), (11, 0), (10, 10), (0, 10), None)), ("closePath", ())], rec.value
print("ok")

import io
from fontTools.ttLib import TTFont
from fontTools.fontBuilder import FontBuilder
from fontTools.pens.ttGlyphPen import TTGlyphPen
from fontTools.feaLib.builder import addOpenTypeFeaturesFromString
from fontTools.ttLib.reorderGlyphs import reorderGlyphs
order=[".notdef","a","b","c","f","f_f"]
fb = FontBuilder(1000, isTTF=True)
fb.setupGlyphOrder(order)
fb.setupCharacterMap({ord(c): c for c in "abcf"})
def sq():
    pen = TTGlyphPen(None); pen.moveTo((0,0)); pen.lineTo((500,0)); pen.lineTo((500,700)); pen.closePath(); return pen.glyph()
fb.setupGlyf({g: sq() for g in order})
fb.setupHorizontalMetrics({g: (600,0) for g in order})
fb.setupHorizontalHeader(ascent=800, descent=-200)
fb.setupNameTable({"familyName":"T","styleName":"R"})
fb.setupOS2(); fb.setupPost()
addOpenTypeFeaturesFromString(fb.font, "feature liga { sub f f by f_f; } liga;")
buf=io.BytesIO(); fb.font.save(buf)
def ligs(f):
    st=f["GSUB"].table.LookupList.Lookup[0].SubTable[0]
    return {k:[(l.Component,l.LigGlyph) for l in v] for k,v in st.ligatures.items()}
new=[".notdef","f_f","f","c","b","a"]
for lazy in (None, False, True):
    f=TTFont(io.BytesIO(buf.getvalue()), lazy=lazy)
    reorderGlyphs(f, new)
    print(lazy, ligs(f))

import sys, io
from fontTools.ttLib import TTFont
from fontTools.ttLib.scaleUpem import scale_upem
f = TTFont()
f.importXML("/repo/Tests/ttLib/tables/data/COLRv1-clip-boxes-glyf.ttx")
upem = f["head"].unitsPerEm
print("upem", upem)
scale_upem(f, upem * 2)
buf = io.BytesIO()
try:
    f.save(buf)
    print("saved ok", len(buf.getvalue()))
    g = TTFont(io.BytesIO(buf.getvalue()))
    p = g["COLR"].table.BaseGlyphList.BaseGlyphPaintRecord[0].Paint
    print(p.Format, getattr(p, "scale", None))
except Exception as e:
    print("FAIL", type(e).__name__, e)

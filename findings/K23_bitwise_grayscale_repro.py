"""Demo for seeded defect C03/B.

An embedded-bitmap font (EBLC/EBDT) must survive  binary -> TTX -> binary  with
identical 'EBDT'/'EBLC' bytes for *every* bitmap dump format
(ttx -z raw|row|bitwise|extfile), for 1-bit strikes and for grayscale strikes.

Run:  cd /tmp/wt3/C03 && PYTHONPATH=/tmp/wt3/C03/Lib /venv/bin/python demo.py
"""

import io
import os
import sys
import tempfile

from fontTools.fontBuilder import FontBuilder
from fontTools.pens.ttGlyphPen import TTGlyphPen
from fontTools.ttLib import TTFont

LINE = """
        <sbitLineMetrics direction="%s">
          <ascender value="8"/><descender value="-2"/><widthMax value="16"/>
          <caretSlopeNumerator value="1"/><caretSlopeDenominator value="0"/>
          <caretOffset value="0"/><minOriginSB value="0"/><minAdvanceSB value="0"/>
          <maxBeforeBL value="8"/><minAfterBL value="-2"/><pad1 value="0"/><pad2 value="0"/>
        </sbitLineMetrics>"""

# glyph A: format 1 (byte aligned, small metrics), 11 px wide, 3 rows
# glyph B: format 6 (byte aligned, big metrics),   16 px wide, 2 rows
# glyph C: format 2 (bit aligned,  small metrics),  5 px wide, 3 rows
TEMPLATE = (
    """<?xml version="1.0" encoding="UTF-8"?>
<ttFont>
  <EBLC>
    <header version="2.0"/>
    <strike index="0">
      <bitmapSizeTable>"""
    + LINE % "hori"
    + LINE % "vert"
    + """
        <colorRef value="0"/>
        <startGlyphIndex value="1"/>
        <endGlyphIndex value="3"/>
        <ppemX value="10"/>
        <ppemY value="10"/>
        <bitDepth value="%(bitDepth)d"/>
        <flags value="1"/>
      </bitmapSizeTable>
      <eblc_index_sub_table_1 imageFormat="1" firstGlyphIndex="1" lastGlyphIndex="1">
        <glyphLoc id="1" name="A"/>
      </eblc_index_sub_table_1>
      <eblc_index_sub_table_1 imageFormat="6" firstGlyphIndex="2" lastGlyphIndex="2">
        <glyphLoc id="2" name="B"/>
      </eblc_index_sub_table_1>
      <eblc_index_sub_table_1 imageFormat="2" firstGlyphIndex="3" lastGlyphIndex="3">
        <glyphLoc id="3" name="C"/>
      </eblc_index_sub_table_1>
    </strike>
  </EBLC>
  <EBDT>
    <header version="2.0"/>
    <strikedata index="0">
      <ebdt_bitmap_format_1 name="A">
        <SmallGlyphMetrics>
          <height value="3"/><width value="11"/><BearingX value="0"/><BearingY value="3"/><Advance value="12"/>
        </SmallGlyphMetrics>
        <rawimagedata>
          %(A)s
        </rawimagedata>
      </ebdt_bitmap_format_1>
      <ebdt_bitmap_format_6 name="B">
        <BigGlyphMetrics>
          <height value="2"/><width value="16"/><horiBearingX value="0"/><horiBearingY value="2"/><horiAdvance value="17"/>
          <vertBearingX value="0"/><vertBearingY value="0"/><vertAdvance value="3"/>
        </BigGlyphMetrics>
        <rawimagedata>
          %(B)s
        </rawimagedata>
      </ebdt_bitmap_format_6>
      <ebdt_bitmap_format_2 name="C">
        <SmallGlyphMetrics>
          <height value="3"/><width value="5"/><BearingX value="0"/><BearingY value="3"/><Advance value="6"/>
        </SmallGlyphMetrics>
        <rawimagedata>
          %(C)s
        </rawimagedata>
      </ebdt_bitmap_format_2>
    </strikedata>
  </EBDT>
</ttFont>
"""
)

STRIKES = {
    # 1 bit per pixel: A rows are 2 bytes, B rows 2 bytes, C is 15 bits
    1: dict(bitDepth=1, A="ffe0 8020 ffe0", B="a5a5 5a5a", C="fc7e"),
    # 2 bits per pixel (grayscale): A rows are 3 bytes (22 bits), B rows 4 bytes, C is 30 bits
    2: dict(bitDepth=2, A="ffe0c0 812244 0f1e3c", B="a5a5a5a5 5a5a5a5a", C="fc7ea5c0"),
}


def build(bitDepth):
    fb = FontBuilder(1000, isTTF=True)
    order = [".notdef", "A", "B", "C"]
    fb.setupGlyphOrder(order)
    fb.setupCharacterMap({65: "A", 66: "B", 67: "C"})
    pen = TTGlyphPen(None)
    pen.moveTo((0, 0))
    pen.lineTo((0, 500))
    pen.lineTo((500, 500))
    pen.closePath()
    g = pen.glyph()
    fb.setupGlyf({n: g for n in order})
    fb.setupHorizontalMetrics({n: (600, 0) for n in order})
    fb.setupHorizontalHeader(ascent=800, descent=-200)
    fb.setupNameTable({"familyName": "T", "styleName": "R"})
    fb.setupOS2()
    fb.setupPost()
    buf = io.BytesIO()
    fb.font.save(buf)
    font = TTFont(io.BytesIO(buf.getvalue()))
    font.importXML(io.BytesIO((TEMPLATE % STRIKES[bitDepth]).encode("ascii")))
    out = io.BytesIO()
    font.save(out)
    return out.getvalue()


def via_ttx(data, fmt, tmpdir):
    font = TTFont(io.BytesIO(data))
    path = os.path.join(tmpdir, "font_%s.ttx" % fmt)
    font.saveXML(path, bitmapGlyphDataFormat=fmt)
    font2 = TTFont()
    font2.importXML(path)
    out = io.BytesIO()
    font2.save(out)
    return TTFont(io.BytesIO(out.getvalue()))


def main():
    failures = []
    for bitDepth, formats in ((1, ("raw", "row", "bitwise", "extfile")), (2, ("raw", "extfile", "row", "bitwise"))):
        data = build(bitDepth)
        orig = TTFont(io.BytesIO(data))
        expected = {tag: orig.getTableData(tag) for tag in ("EBDT", "EBLC")}
        for fmt in formats:
            with tempfile.TemporaryDirectory() as tmpdir:
                rt = via_ttx(data, fmt, tmpdir)
                for tag in ("EBDT", "EBLC"):
                    got = rt.getTableData(tag)
                    ok = got == expected[tag]
                    print("bitDepth=%d -z %-7s %s: %s" % (bitDepth, fmt, tag, "same" if ok else "DIFFERENT"))
                    if not ok:
                        failures.append(
                            "bitDepth=%d, bitmapGlyphDataFormat=%r: %s bytes differ after TTX round trip\n"
                            "    expected %s\n    got      %s" % (bitDepth, fmt, tag, expected[tag].hex(), got.hex())
                        )
    assert not failures, "\n" + "\n".join(failures)
    print("OK: EBDT/EBLC survive the TTX round trip in every bitmap dump format")


if __name__ == "__main__":
    try:
        main()
    except AssertionError as e:
        print("ASSERTION FAILED:", e)
        sys.exit(1)

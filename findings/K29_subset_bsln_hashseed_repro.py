"""K29 (C16): subsetting `bsln` (same shape in `prop`) picked the default value of a tie by PYTHONHASHSEED:
the per-glyph dict was built while iterating the set s.glyphs and Counter.most_common breaks ties by insertion order.
Run from /repo: PYTHONPATH=/repo/Lib /venv/bin/python /verif/findings/K29_subset_bsln_hashseed_repro.py (exit 0 = one output)"""
import os, subprocess, sys

CHILD = r'''
import hashlib; from io import BytesIO
from fontTools.ttLib import TTFont; from fontTools import subset
font = TTFont(recalcTimestamp=False); font.importXML("Tests/subset/data/TestBSLN-1.ttx")
buf = BytesIO(); font.save(buf); font = TTFont(BytesIO(buf.getvalue()), recalcTimestamp=False)
o = subset.Options(); o.notdef_glyph = False
s = subset.Subsetter(o); s.populate(glyphs=["zero", "uni2EA2"]); s.subset(font)
out = BytesIO(); font.save(out); b = font["bsln"].table.Baseline
print(hashlib.md5(out.getvalue()).hexdigest(), "Default", b.DefaultBaseline, getattr(b, "BaselineValues", None))
'''
outs = set()
for seed in range(8):
    r = subprocess.run([sys.executable, "-c", CHILD], capture_output=True, text=True, env=dict(os.environ, PYTHONHASHSEED=str(seed)))
    outs.add(r.stdout.strip() or r.stderr.strip()[-300:])
print(outs)
sys.exit(0 if len(outs) == 1 else 1)

"""K48 (C04): WOFF2FlavorData(data=other) copied other.minorVersion into majorVersion and left minorVersion unset, so
a font converted with flavor data taken from another font (e.g. WOFF -> WOFF2) was written with a wrong WOFF2 header
version.  Exit 0 = versions copied correctly, 1 = defect."""
import sys
from fontTools.ttLib.woff2 import WOFF2FlavorData
from fontTools.ttLib.sfnt import WOFFFlavorData

d = WOFFFlavorData()
d.majorVersion, d.minorVersion = 3, 7
f = WOFF2FlavorData(data=d)
print("copied:", f.majorVersion, f.minorVersion)
sys.exit(0 if (f.majorVersion, f.minorVersion) == (3, 7) else 1)

"""K50 (C16): post.encode_format_2_0 stored the name list it builds while compiling back into self.extraNames, so a
save changed the in-memory table: names appended by an earlier save stayed in the list after a glyph rename and were
written as unused strings by every later save (the file differs from the one produced without the earlier save).
Exit 0 = an extra save in between leaves no trace, 1 = defect."""
import os
os.environ["SOURCE_DATE_EPOCH"] = "1700000000"
from io import BytesIO
from fontTools.fontBuilder import FontBuilder
from fontTools.pens.ttGlyphPen import TTGlyphPen
from fontTools.ttLib import TTFont

def build():
    order = [".notdef", "A", "foo", "baz"]
    fb = FontBuilder(unitsPerEm=1000, isTTF=True)
    fb.setupGlyphOrder(order)
    fb.setupCharacterMap({0x41: "A"})
    g = TTGlyphPen(None).glyph()
    fb.setupGlyf({n: g for n in order})
    fb.setupHorizontalMetrics({n: (500, 0) for n in order})
    fb.setupHorizontalHeader(ascent=800, descent=-200)
    fb.setupNameTable({"familyName": "X", "styleName": "Regular"})
    fb.setupOS2()
    fb.setupPost()
    return fb.font

def save(f):
    b = BytesIO(); f.save(b); return b.getvalue()

def rename(f):
    # rename glyph 'foo' -> 'bar' everywhere it is keyed by name
    order = ["bar" if n == "foo" else n for n in f.getGlyphOrder()]
    glyf = f["glyf"]; glyf.glyphs["bar"] = glyf.glyphs.pop("foo")
    hmtx = f["hmtx"]; hmtx.metrics["bar"] = hmtx.metrics.pop("foo")
    f.setGlyphOrder(order)

a = build(); rename(a); bytesA = save(a)
b = build(); save(b); rename(b); bytesB = save(b)
pa = TTFont(BytesIO(bytesA), lazy=True).reader["post"]
pb = TTFont(BytesIO(bytesB), lazy=True).reader["post"]
print("extraNames A:", a["post"].extraNames)
print("extraNames B:", b["post"].extraNames)
print("identical:", bytesA == bytesB, len(pa), len(pb))
import sys
print("identical:", bytesA == bytesB, len(pa), len(pb))
sys.exit(0 if bytesA == bytesB else 1)

"""K41 (C17): reorderGlyphs raised AttributeError on a MATH table whose MathVariants has a NULL HorizGlyphCoverage
(legitimate: vertical variants only) -- ReorderCoverage.apply dereferenced coverage.glyphs without a None test.
Run from /repo.  exit 0 = reorder works and the font still compiles."""
import io
from fontTools.ttLib import TTFont
from fontTools.ttLib.reorderGlyphs import reorderGlyphs
f = TTFont(); f.importXML("Tests/subset/data/test_math_closure.ttx")
buf = io.BytesIO(); f.save(buf); f = TTFont(io.BytesIO(buf.getvalue()))
mv = f["MATH"].table.MathVariants
assert mv.HorizGlyphCoverage is None or mv.VertGlyphCoverage is None, "fixture no longer has a NULL coverage"
order = f.getGlyphOrder()
reorderGlyphs(f, [order[0]] + order[1:][::-1])
f.save(io.BytesIO())
print("ok")

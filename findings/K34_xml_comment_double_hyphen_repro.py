"""K34 (C03): XMLWriter.comment() wrote font-controlled text containing `--` into an XML comment, which is not well
formed: the TTX dump of a font whose `meta` entry (or fvar axis name, NameID comment ...) contains `--` could not be
read back.  exit 0 = dump parses and the table round-trips."""
import io, sys
from fontTools.ttLib import TTFont, newTable

font = TTFont()
font.setGlyphOrder([".notdef"])
meta = font["meta"] = newTable("meta")
meta.data = {"appl": b"a--b"}
x = io.StringIO()
font.saveXML(x, tables=["meta"])
f2 = TTFont()
try:
    f2.importXML(io.StringIO(x.getvalue()))
except Exception as e:
    print("cannot re-import:", type(e).__name__, e)
    sys.exit(1)
assert f2["meta"].data == meta.data, f2["meta"].data
print("ok")

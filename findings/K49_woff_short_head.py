"""K49 (C20): saving as WOFF a font whose damaged 'head' (kept as raw bytes under ignoreDecompileErrors) is shorter than
8 bytes raised struct.error from SFNTWriter.close, which reads the WOFF version out of head[4:8] without a length
test (the plain sfnt path has the `length < 12` guard).  Exit 0 = saves, 1 = struct.error."""
import io, struct, sys
from fontTools.ttLib import TTFont
from fontTools.ttLib.sfnt import SFNTReader, SFNTWriter

src = "Tests/ttLib/data/Test-Regular.ttf"
r = SFNTReader(open(src, "rb"))
buf = io.BytesIO()
w = SFNTWriter(buf, len(r.keys()), r.sfntVersion)
for tag in r.keys():
    data = r[tag]
    w[tag] = data[:6] if tag == "head" else data
try:
    w.close()
except Exception:
    pass
buf.seek(0)
f = TTFont(buf, ignoreDecompileErrors=True, recalcBBoxes=False, recalcTimestamp=False)
f.flavor = "woff"
out = io.BytesIO()
try:
    f.save(out)
except struct.error as e:
    print("struct.error:", e)
    sys.exit(1)
print("ok", len(out.getvalue()))

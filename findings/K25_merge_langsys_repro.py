"""K25 (C18, known): a language system declared by only one of two inputs sharing a script drops the other
input's features for that language (mergeScripts folds only explicit LangSysRecords; a shaper would have fallen back
to the other input's DefaultLangSys).  Exit 1 = defect present.
Run: PYTHONPATH=/repo/Lib /venv/bin/python K25_merge_langsys_repro.py"""
import io, traceback
from fontTools.feaLib.builder import addOpenTypeFeaturesFromString
from fontTools.fontBuilder import FontBuilder
from fontTools.merge import Merger
from fontTools.pens.ttGlyphPen import TTGlyphPen
from fontTools.ttLib import TTFont

def build(names, cmap, fea, patch=None):
    fb = FontBuilder(unitsPerEm=1000, isTTF=True)
    fb.setupGlyphOrder(names)
    fb.setupCharacterMap(cmap)
    fb.setupGlyf({n: TTGlyphPen(None).glyph() for n in names})
    fb.setupHorizontalMetrics({n: (500, 0) for n in names})
    fb.setupHorizontalHeader(); fb.setupNameTable({"familyName": "X"}); fb.setupOS2(); fb.setupPost()
    addOpenTypeFeaturesFromString(fb.font, fea)
    if patch: patch(fb.font)
    buf = io.BytesIO(); fb.font.save(buf); buf.seek(0)
    return buf

def langsys_features(font, script, lang):
    for sr in font["GSUB"].table.ScriptList.ScriptRecord:
        if sr.ScriptTag == script:
            ls = next((l.LangSys for l in sr.Script.LangSysRecord if l.LangSysTag == lang), sr.Script.DefaultLangSys)
            recs = font["GSUB"].table.FeatureList.FeatureRecord
            return sorted((recs[i].FeatureTag, tuple(recs[i].Feature.LookupListIndex)) for i in ls.FeatureIndex)

# (1) language system declared by only one of two inputs that share a script
one = build([".notdef", "f", "i", "f_i"], {0x66: "f", 0x69: "i"},
            "languagesystem DFLT dflt; languagesystem latn dflt; feature liga { sub f i by f_i; } liga;")
two = build([".notdef", "s", "t", "s_t"], {0x73: "s", 0x74: "t"},
            "languagesystem DFLT dflt; languagesystem latn dflt; languagesystem latn TRK; feature liga { sub s t by s_t; } liga;")
merged = Merger().merge([one, two])
print("input one, latn/TRK (falls back to dflt):", langsys_features(TTFont(io.BytesIO(one.getvalue())), "latn", "TRK "))
print("merged, latn/dflt:", langsys_features(merged, "latn", "dflt"))
print("merged, latn/TRK :", langsys_features(merged, "latn", "TRK "), "<- input one's f_i lookup (index 0) is gone")


import sys
alone = langsys_features(TTFont(io.BytesIO(one.getvalue())), "latn", "TRK ")
m = langsys_features(merged, "latn", "TRK ")
sys.exit(0 if any(0 in lk for _, lk in m) else 1)

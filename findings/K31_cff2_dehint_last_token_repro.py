"""K31 (C12): remove_hints() on CFF2 dropped a subroutine call when the subroutine ends in a path operator (CFF2 has no
`return`): _DehintingT2Decompiler.execute skipped the last token of every program assuming it is return/endchar.
The LEN-1 lint had flagged the loop; the first audit accepted it with the CFF1 reasoning.  exit 0 = outline unchanged."""
from io import BytesIO
from fontTools.fontBuilder import FontBuilder
from fontTools.cffLib import SubrsIndex
from fontTools.misc.psCharStrings import T2CharString
from fontTools.pens.recordingPen import RecordingPen
from fontTools.ttLib import TTFont

fb = FontBuilder(1000, isTTF=False)
fb.setupGlyphOrder([".notdef", "A"]); fb.setupCharacterMap({65: "A"})
fb.setupCFF2({".notdef": T2CharString(program=[]),
              "A": T2CharString(program=[-107, "callsubr", "hintmask", b"\x50", 200, "hlineto",
                                         300, "vlineto", "hintmask", b"\xa0", -200, "hlineto"])})
top = fb.font["CFF2"].cff.topDictIndex[0]; priv = top.FDArray[0].Private
priv.Subrs = SubrsIndex()
priv.Subrs.append(T2CharString(program=[0, 50, 400, 50, "hstemhm", 100, 40, 200, 40, "vstemhm",
                                        "hintmask", b"\xa0", 100, 0, "rmoveto"],
                               private=priv, globalSubrs=top.GlobalSubrs))
fb.setupHorizontalMetrics({".notdef": (500, 0), "A": (500, 0)})
fb.setupHorizontalHeader(ascent=800, descent=-200)
fb.setupNameTable({"familyName": "D", "styleName": "R"}); fb.setupOS2(); fb.setupPost()
buf = BytesIO(); fb.save(buf); buf.seek(0); font = TTFont(buf)
def snap(f):
    pen = RecordingPen(); f["CFF2"].cff.topDictIndex[0].CharStrings["A"].draw(pen); return pen.value
before = snap(font)
font["CFF2"].cff.remove_hints()
after = snap(font)
print(before)
print(after)
import sys
sys.exit(0 if before == after else 1)

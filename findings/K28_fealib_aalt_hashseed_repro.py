"""K28 (C16/C11): the order of aalt alternates depended on PYTHONHASHSEED: Builder.add_lookup_to_feature_ filled
self.features_ while iterating the frozenset self.language_systems, and build_feature_aalt_ walks self.features_ in
insertion order.  Run: PYTHONPATH=/repo/Lib /venv/bin/python K28_fealib_aalt_hashseed_repro.py  (exit 0 = same output for every seed)"""
import os, subprocess, sys

CHILD = r'''
from fontTools.ttLib import TTFont
from fontTools.feaLib.builder import addOpenTypeFeaturesFromString
f = TTFont(); f.setGlyphOrder([".notdef", "a", "a.alt1", "a.alt2", "a.alt3"])
addOpenTypeFeaturesFromString(f, """
languagesystem DFLT dflt; languagesystem latn dflt; languagesystem cyrl dflt;
feature aalt { feature salt; } aalt;
feature salt { sub a by a.alt1; script latn; sub a by a.alt2; script cyrl; sub a by a.alt3; } salt;
""")
for lk in f["GSUB"].table.LookupList.Lookup:
    for st in lk.SubTable:
        if hasattr(st, "alternates"): print(st.alternates)
'''
outs = set()
for seed in range(8):
    r = subprocess.run([sys.executable, "-c", CHILD], capture_output=True, text=True, env=dict(os.environ, PYTHONHASHSEED=str(seed)))
    outs.add(r.stdout.strip() or r.stderr.strip()[-200:])
print(outs)
sys.exit(0 if len(outs) == 1 else 1)

"""K47 (C16): EBDT/CBDT subset_glyphs rebuilt every strike dict while iterating the set s.glyphs; EBDT.toXML walks
that dict, so the TTX dump of a subsetted bitmap font changed with PYTHONHASHSEED.  Runs itself under several
seeds.  Exit 0 = all dumps identical, 1 = they differ."""
import hashlib, io, os, subprocess, sys

if len(sys.argv) > 1:
    from fontTools.ttLib import TTFont
    from fontTools import subset

    f = TTFont()
    f.importXML("Tests/subset/data/google_color.ttx")
    s = subset.Subsetter(subset.Options())
    s.populate(glyphs=f.getGlyphOrder())
    s.subset(f)
    out = io.StringIO()
    f.saveXML(out, tables=["CBDT"])
    print(hashlib.sha1(out.getvalue().encode()).hexdigest())
    sys.exit(0)
digests = set()
for seed in range(6):
    r = subprocess.run([sys.executable, __file__, "child"], env=dict(os.environ, PYTHONHASHSEED=str(seed)), capture_output=True, text=True)
    digests.add(r.stdout.strip().splitlines()[-1] if r.stdout.strip() else r.stderr[-200:])
print(sorted(digests))
sys.exit(0 if len(digests) == 1 else 1)

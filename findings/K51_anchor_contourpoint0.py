"""K51 (C11): ast.Anchor.asFea / AnchorDefinition.asFea tested `if self.contourpoint:` so `contourpoint 0` was not
printed; the reparsed statement compiles to a Format 1 anchor instead of Format 2.  Exit 0 = printed, 1 = dropped."""
import sys
from io import StringIO
from fontTools.feaLib.parser import Parser

fea = "feature mark { pos cursive A <anchor 10 20 contourpoint 0> <anchor NULL>; } mark;"
doc = Parser(StringIO(fea), glyphNames=["A"]).parse()
out = doc.asFea()
print(out.strip())
sys.exit(0 if "contourpoint 0" in out else 1)

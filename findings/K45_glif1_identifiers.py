"""K45 (C19): writeGlyphToString(formatVersion=1) emitted identifier= attributes (a GLIF 2 feature) because
_writeGlyphToBytes did not forward formatVersion to GLIFPointPen; the library's own validating reader then
rejects the GLIF 1 it wrote.  Exit 0 = round trip works (fixed), 1 = defect present."""
import sys
from fontTools.ufoLib.glifLib import writeGlyphToString, readGlyphFromString
from fontTools.pens.recordingPen import RecordingPointPen


def draw(pen):
    pen.beginPath(identifier="c1")
    pen.addPoint((0, 0), "line", identifier="p1")
    pen.addPoint((10, 0), "line")
    pen.addPoint((10, 10), "line")
    pen.endPath()


s = writeGlyphToString("x", None, draw, formatVersion=1)
if "identifier" in s:
    print("GLIF 1 output carries identifier attributes")
    try:
        readGlyphFromString(s, None, RecordingPointPen(), validate=True)
    except Exception as e:
        print("and the validating reader rejects it:", e)
    sys.exit(1)
readGlyphFromString(s, None, RecordingPointPen(), validate=True)
print("ok")

"""Side notes, reorderGlyphs half.  Run from the worktree root with PYTHONPATH=Lib."""
import logging
from io import BytesIO
from fontTools.ttLib import TTFont
from fontTools.varLib.varStore import VarStoreInstancer
logging.disable(logging.WARNING)

def load_ttx(path):
    f = TTFont(); f.importXML(path)
    b = BytesIO(); f.save(b); b.seek(0)
    return TTFont(b)

def rt(f):
    b = BytesIO(); f.save(b); b.seek(0); return TTFont(b)

# --- S1: HVAR without AdvWidthMap (implicit gid -> inner index) -------------
def hvar_deltas(f, loc):
    hvar = f["HVAR"].table
    inst = VarStoreInstancer(hvar.VarStore, f["fvar"].axes, loc)
    out = {}
    for gid, name in enumerate(f.getGlyphOrder()):
        if hvar.AdvWidthMap is not None:
            idx = hvar.AdvWidthMap.mapping[name]
        else:
            idx = gid  # outer 0, inner = glyph id
        out[name] = inst[idx]
    return out

for path in ["Tests/subset/data/TestHVVAR.ttx", "Tests/cffLib/data/TestCFF2Widths.ttx", "Tests/cffLib/data/TestSparseCFF2VF.ttx"]:
    f = load_ttx(path)
    hv = f["HVAR"].table
    print(path, "AdvWidthMap:", "present" if hv.AdvWidthMap is not None else "None (implicit by gid)")
    loc = {a.axisTag: 1.0 for a in f["fvar"].axes}
    before = hvar_deltas(f, loc)
    order = f.getGlyphOrder()
    new = [order[0]] + order[1:][::-1]
    try:
        f.reorderGlyphs(new)
        f = rt(f)
    except Exception as e:
        print("   reorder/saving raised", type(e).__name__, e); continue
    if f.getGlyphOrder() != new:
        print("   (glyph names not preserved by this font; skipping)"); continue
    after = hvar_deltas(f, loc)
    bad = [g for g in order if abs(before[g] - after[g]) > 1e-9]
    print("   glyphs whose HVAR advance delta at", loc, "changed:", len(bad), "of", len(order), bad[:6])

# --- S2: CFF2 / CID FDSelect stays in old gid order --------------------------
for path, tag in [("Tests/cffLib/data/TestSparseCFF2VF.ttx", "CFF2"), ("Tests/subset/data/TestCID-Regular.ttx", "CFF ")]:
    f = load_ttx(path)
    cs = f[tag].cff.topDictIndex[0].CharStrings
    order = f.getGlyphOrder()
    before = {g: cs.getItemAndSelector(g)[1] for g in order}
    new = [order[0]] + order[2:] + order[1:2]   # rotate
    f.reorderGlyphs(new)
    f = rt(f)
    assert f.getGlyphOrder() == new
    cs = f[tag].cff.topDictIndex[0].CharStrings
    after = {g: cs.getItemAndSelector(g)[1] for g in new}
    bad = [g for g in order if before[g] != after[g]]
    print(path, "glyphs whose FontDict (FDSelect) index changed:", len(bad), "of", len(order), bad[:6])

# --- S3: MATH with a NULL HorizGlyphCoverage ---------------------------------
f = load_ttx("Tests/subset/data/test_math_closure.ttx")
mv = f["MATH"].table.MathVariants
print("MATH: VertGlyphCoverage", mv.VertGlyphCoverage is not None, "HorizGlyphCoverage", mv.HorizGlyphCoverage is not None)
order = f.getGlyphOrder()
try:
    f.reorderGlyphs([order[0]] + order[1:][::-1]); print("   ok")
except Exception as e:
    print("   reorderGlyphs raised", type(e).__name__, e)

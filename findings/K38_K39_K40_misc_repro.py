"""K38 (C01): LazyList[-1] handed -1 to the record reader, which seeks pos + i * recordSize: under lazy=True the last
record of a lazily read array decoded the bytes BEFORE the array (and cached them).
K39 (C15): sstruct.getformat cached on the format string only although pack asks keep_pad_byte=True and unpack False:
with a named pad byte the first caller decided what the other one saw.
K40 (C15/C12): T1CharString.getFixedEncoder defined its encoder but returned None.
exit 0 = all three behave."""
import sys
from fontTools.misc.lazyTools import LazyList
from fontTools.misc import sstruct
from fontTools.misc.psCharStrings import T1CharString

seen = []
l = LazyList([lambda i: seen.append(i) or ("item", i)] * 3)
assert l[-1] == ("item", 2) and seen == [2], (l[-1], seen)

fmt = ">; a: B; pad: x; b: B"
try:
    sstruct.pack(fmt, {"a": 1, "b": 2, "pad": 0})
except Exception as e:
    print("pack", type(e).__name__, e)
assert sstruct.unpack(fmt, b"\x01\x00\x02") == {"a": 1, "b": 2}, "unpack poisoned by pack's cache entry"

enc = T1CharString().getFixedEncoder()
assert callable(enc), enc
print("ok")

import io
from fontTools.ttLib import TTFont, newTable
from fontTools.ttLib.scaleUpem import scale_upem
from fontTools.fontBuilder import FontBuilder
from fontTools.pens.ttGlyphPen import TTGlyphPen
fb = FontBuilder(1000, isTTF=True)
fb.setupGlyphOrder([".notdef", "A"])
fb.setupCharacterMap({65: "A"})
pen = TTGlyphPen(None); pen.moveTo((0,0)); pen.lineTo((500,0)); pen.lineTo((500,700)); pen.closePath()
g = pen.glyph()
pen = TTGlyphPen(None)
fb.setupGlyf({".notdef": pen.glyph(), "A": g})
fb.setupHorizontalMetrics({".notdef": (500,0), "A": (600,0)})
fb.setupHorizontalHeader(ascent=800, descent=-200)
fb.setupNameTable({"familyName":"T","styleName":"R"})
fb.setupOS2(); fb.setupPost()
f = fb.font
v = f["VORG"] = newTable("VORG")
v.majorVersion, v.minorVersion = 1, 0
v.defaultVertOriginY = 880
v.VOriginRecords = {"A": 700}
v.numVertOriginYMetrics = 1
scale_upem(f, 2000)
print("defaultVertOriginY", f["VORG"].defaultVertOriginY, "VOriginRecords", f["VORG"].VOriginRecords)
assert f["VORG"].VOriginRecords == {"A": 1400}, "VORG.VOriginRecords not scaled"

"""K36 (C19): convertUFO1OrUFO2KerningToUFO3Kerning made new group names unique against the OLD names handed in
(firstRenamedGroups.keys()) instead of the NEW names handed out so far (.values()): two old groups mapping to the same new
name were merged and a kerning pair was lost.  exit 0 = both pairs survive under distinct names."""
import sys
from fontTools.ufoLib.converters import convertUFO1OrUFO2KerningToUFO3Kerning
kerning = {"@MMK_L_A": {"B": 1}, "A": {"B": 2}}
groups = {"@MMK_L_A": ["a1"], "A": ["a2"]}
k, g, maps = convertUFO1OrUFO2KerningToUFO3Kerning(kerning, groups, ())
print(k, maps)
vals = sorted(v["B"] for v in k.values())
sys.exit(0 if vals == [1, 2] and len(set(maps["side1"].values())) == 2 else 1)

"""K26 (C18, fixed): layoutPostMerge crashed when the merged GDEF is version >= 1.2 without MarkGlyphSetsDef
(pre-merge guards for it, post-merge did not).  Exit 0 = merges.
Run: PYTHONPATH=/repo/Lib /venv/bin/python K26_merge_gdef12_repro.py"""
import io, traceback
from fontTools.feaLib.builder import addOpenTypeFeaturesFromString
from fontTools.fontBuilder import FontBuilder
from fontTools.merge import Merger
from fontTools.pens.ttGlyphPen import TTGlyphPen
from fontTools.ttLib import TTFont

def build(names, cmap, fea, patch=None):
    fb = FontBuilder(unitsPerEm=1000, isTTF=True)
    fb.setupGlyphOrder(names)
    fb.setupCharacterMap(cmap)
    fb.setupGlyf({n: TTGlyphPen(None).glyph() for n in names})
    fb.setupHorizontalMetrics({n: (500, 0) for n in names})
    fb.setupHorizontalHeader(); fb.setupNameTable({"familyName": "X"}); fb.setupOS2(); fb.setupPost()
    addOpenTypeFeaturesFromString(fb.font, fea)
    if patch: patch(fb.font)
    buf = io.BytesIO(); fb.font.save(buf); buf.seek(0)
    return buf

def langsys_features(font, script, lang):
    for sr in font["GSUB"].table.ScriptList.ScriptRecord:
        if sr.ScriptTag == script:
            ls = next((l.LangSys for l in sr.Script.LangSysRecord if l.LangSysTag == lang), sr.Script.DefaultLangSys)
            recs = font["GSUB"].table.FeatureList.FeatureRecord
            return sorted((recs[i].FeatureTag, tuple(recs[i].Feature.LookupListIndex)) for i in ls.FeatureIndex)

# (2) GDEF 1.2 header without MarkGlyphSetsDef
def gdef12(font):
    font["GDEF"].table.Version = 0x00010002
    font["GDEF"].table.MarkGlyphSetsDef = None
gd = " table GDEF { GlyphClassDef [%s], [%s], , ; } GDEF;"
one = build([".notdef", "f", "i", "f_i"], {0x66: "f", 0x69: "i"},
            "languagesystem DFLT dflt; feature liga { sub f i by f_i; } liga;" + gd % ("f i", "f_i"), gdef12)
two = build([".notdef", "s", "t", "s_t"], {0x73: "s", 0x74: "t"},
            "languagesystem DFLT dflt; feature liga { sub s t by s_t; } liga;" + gd % ("s t", "s_t"), gdef12)
Merger().merge([one, two])
print("merged fine")

from fontTools.ttLib import TTFont, newTable
from fontTools.ttLib.scaleUpem import scale_upem
from fontTools.fontBuilder import FontBuilder
from fontTools.pens.ttGlyphPen import TTGlyphPen
from fontTools.ttLib.tables._g_l_y_f import GlyphComponent, Glyph
import io
fb = FontBuilder(1000, isTTF=True)
fb.setupGlyphOrder([".notdef", "A", "B"])
fb.setupCharacterMap({65: "A", 66: "B"})
pen = TTGlyphPen(None); pen.moveTo((0,0)); pen.lineTo((500,0)); pen.lineTo((500,700)); pen.closePath()
g = pen.glyph()
comp = Glyph(); comp.numberOfContours = -1
c1 = GlyphComponent(); c1.glyphName="A"; c1.x=0; c1.y=0; c1.flags=0
c2 = GlyphComponent(); c2.glyphName="A"; c2.firstPt=0; c2.secondPt=1; c2.flags=0
comp.components=[c1,c2]
fb.setupGlyf({".notdef": TTGlyphPen(None).glyph(), "A": g, "B": comp})
fb.setupHorizontalMetrics({".notdef": (500,0), "A": (600,0), "B": (600,0)})
fb.setupHorizontalHeader(ascent=800, descent=-200)
fb.setupNameTable({"familyName":"T","styleName":"R"})
fb.setupOS2(); fb.setupPost()
buf=io.BytesIO(); fb.font.save(buf)
f=TTFont(io.BytesIO(buf.getvalue()))
scale_upem(f, 2000)
print("ok")
